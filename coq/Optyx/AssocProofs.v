(* AssocProofs.v — property C15: the meaning of an expression does not depend on
   the shape of its tree.  Sums and products accumulated term by term
   (left-deep [chain_l], right-deep [chain_r]) denote the same real number, the
   same variables, the same degree and the same gradient value as the same
   formula built balanced ([chain_bal]).

   Method: every observation F of interest satisfies
       F (Bin o a b) = op (F a) (F b)
   for an associative [op] with a two-sided unit [u]; for such an F the three
   shapes all give [fold_right op u (map F ts)] (section [Shape]).  The
   instances are: evaluation of Add/Mul chains (Rplus/0, Rmult/1), variable
   occurrence (app/[]), degree of Add/Sub chains ([omax]/Some 0), degree of Mul
   chains ([deg_mul]/Some 0) and evaluation of the gradient of Add chains.
   Left chains of Sub and Div (not associative) are characterised directly. *)
From Coq Require Import Reals QArith Qreals String List Bool ZArith Arith Lia Lra.
From Optyx Require Import Syntax Occ SemR Degree Autodiff AutodiffLemmas Vars VarsProofs Assoc.
Import ListNotations.
Close Scope Q_scope.
Open Scope R_scope.

Definition prodR (l : list R) : R := fold_right Rmult 1 l.

(* ------------------------------------------------------------------ *)
(** * List facts on halving *)

Lemma half_bounds (n : nat) : (2 <= n)%nat -> (1 <= Nat.div n 2 /\ Nat.div n 2 < n)%nat.
Proof.
  intros Hn. split.
  - change 1%nat with (Nat.div 2 2). apply Nat.div_le_mono; [discriminate|exact Hn].
  - apply Nat.div_lt; lia.
Qed.

Lemma length_ge2 {A} (a b : A) (l : list A) : (2 <= length (a :: b :: l))%nat.
Proof. simpl. lia. Qed.

Lemma length_pos_nonnil {A} (l : list A) : (1 <= length l)%nat -> l <> [].
Proof. destruct l; simpl; [lia|discriminate]. Qed.

(* ------------------------------------------------------------------ *)
(** * The generic shape-independence argument *)

Section Shape.
  Variable A : Type.
  Variable op : A -> A -> A.
  Variable u : A.
  Hypothesis op_assoc : forall a b c, op (op a b) c = op a (op b c).
  Hypothesis op_unit_l : forall a, op u a = a.
  Hypothesis op_unit_r : forall a, op a u = a.

  Variable F : expr -> A.
  Variable o : bop.
  Hypothesis F_bin : forall a b, F (Bin o a b) = op (F a) (F b).

  Definition mfold (l : list A) : A := fold_right op u l.

  Lemma mfold_app l1 l2 : mfold (l1 ++ l2) = op (mfold l1) (mfold l2).
  Proof.
    induction l1 as [|a l1 IH]; simpl.
    - symmetry. apply op_unit_l.
    - rewrite IH. symmetry. apply op_assoc.
  Qed.

  Lemma fold_left_F r : forall t,
    F (fold_left (fun acc x => Bin o acc x) r t) = op (F t) (mfold (map F r)).
  Proof.
    induction r as [|x r IH]; intros t; simpl.
    - symmetry. apply op_unit_r.
    - rewrite IH, F_bin. apply op_assoc.
  Qed.

  Lemma chain_l_F ts : ts <> [] -> F (chain_l o ts) = mfold (map F ts).
  Proof.
    destruct ts as [|t r]; intros Hne; [congruence|].
    unfold chain_l. rewrite fold_left_F. reflexivity.
  Qed.

  Lemma chain_r_F ts : ts <> [] -> F (chain_r o ts) = mfold (map F ts).
  Proof.
    induction ts as [|t r IH]; intros Hne; [congruence|].
    destruct r as [|t' r'].
    - simpl. symmetry. apply op_unit_r.
    - change (chain_r o (t :: t' :: r')) with (Bin o t (chain_r o (t' :: r'))).
      rewrite F_bin, IH by discriminate. reflexivity.
  Qed.

  Lemma chain_bal_fuel_F f : forall ts,
    ts <> [] -> (length ts < f)%nat -> F (chain_bal_fuel f o ts) = mfold (map F ts).
  Proof.
    induction f as [|f IH]; intros ts Hne Hlen; [lia|].
    destruct ts as [|a [|b l]]; [congruence| |].
    - simpl. symmetry. apply op_unit_r.
    - set (ts := a :: b :: l) in *.
      assert (Hm := half_bounds (length ts) (length_ge2 a b l)).
      set (m := Nat.div (length ts) 2) in *.
      change (chain_bal_fuel (S f) o ts)
        with (Bin o (chain_bal_fuel f o (firstn m ts)) (chain_bal_fuel f o (skipn m ts))).
      rewrite F_bin.
      rewrite IH.
      + rewrite IH.
        * rewrite <- mfold_app, <- map_app, firstn_skipn. reflexivity.
        * apply length_pos_nonnil. rewrite skipn_length. lia.
        * rewrite skipn_length. lia.
      + apply length_pos_nonnil. rewrite firstn_length. lia.
      + rewrite firstn_length. lia.
  Qed.

  Lemma chain_bal_F ts : ts <> [] -> F (chain_bal o ts) = mfold (map F ts).
  Proof. intros Hne. unfold chain_bal. apply chain_bal_fuel_F; [exact Hne|lia]. Qed.

  Lemma chain_shapes_F ts :
    ts <> [] ->
    F (chain_l o ts) = mfold (map F ts) /\
    F (chain_r o ts) = mfold (map F ts) /\
    F (chain_bal o ts) = mfold (map F ts).
  Proof.
    intros Hne. split; [|split];
      [apply chain_l_F|apply chain_r_F|apply chain_bal_F]; exact Hne.
  Qed.
End Shape.

(* the empty chain is the literal 0 in every shape *)
Lemma chain_nil o : chain_l o [] = Const 0%Q /\ chain_r o [] = Const 0%Q /\ chain_bal o [] = Const 0%Q.
Proof. repeat split. Qed.

(* ------------------------------------------------------------------ *)
(** * 1. Evaluation of Add and Mul chains *)

Theorem chain_add_eval : forall rho penv ts, ts <> [] ->
  evalR rho penv (chain_l Add ts) = sumR (map (evalR rho penv) ts) /\
  evalR rho penv (chain_r Add ts) = sumR (map (evalR rho penv) ts) /\
  evalR rho penv (chain_bal Add ts) = sumR (map (evalR rho penv) ts).
Proof.
  intros rho penv ts Hne.
  apply (chain_shapes_F R Rplus 0); try exact Hne.
  - intros; ring.
  - intros; ring.
  - intros; ring.
  - intros a b. reflexivity.
Qed.

Theorem chain_mul_eval : forall rho penv ts, ts <> [] ->
  evalR rho penv (chain_l Mul ts) = prodR (map (evalR rho penv) ts) /\
  evalR rho penv (chain_r Mul ts) = prodR (map (evalR rho penv) ts) /\
  evalR rho penv (chain_bal Mul ts) = prodR (map (evalR rho penv) ts).
Proof.
  intros rho penv ts Hne.
  apply (chain_shapes_F R Rmult 1); try exact Hne.
  - intros; ring.
  - intros; ring.
  - intros; ring.
  - intros a b. reflexivity.
Qed.

(* the three shapes agree (also for the empty list: all are the literal 0) *)
Corollary chain_add_shape_indep : forall rho penv ts,
  evalR rho penv (chain_l Add ts) = evalR rho penv (chain_bal Add ts) /\
  evalR rho penv (chain_r Add ts) = evalR rho penv (chain_bal Add ts).
Proof.
  intros rho penv [|t r]; [split; reflexivity|].
  destruct (chain_add_eval rho penv (t :: r)) as [H1 [H2 H3]]; [discriminate|].
  rewrite H1, H2, H3. split; reflexivity.
Qed.

Corollary chain_mul_shape_indep : forall rho penv ts,
  evalR rho penv (chain_l Mul ts) = evalR rho penv (chain_bal Mul ts) /\
  evalR rho penv (chain_r Mul ts) = evalR rho penv (chain_bal Mul ts).
Proof.
  intros rho penv [|t r]; [split; reflexivity|].
  destruct (chain_mul_eval rho penv (t :: r)) as [H1 [H2 H3]]; [discriminate|].
  rewrite H1, H2, H3. split; reflexivity.
Qed.

(* ------------------------------------------------------------------ *)
(** * 2. Left chains of Sub and Div *)

Theorem chain_l_sub_eval : forall rho penv t r,
  evalR rho penv (chain_l Sub (t :: r)) =
  evalR rho penv t - sumR (map (evalR rho penv) r).
Proof.
  intros rho penv t r. unfold chain_l. revert t.
  induction r as [|x r IH]; intros t; simpl.
  - ring.
  - rewrite IH. simpl. ring.
Qed.

(* unconditional: in Coq's reals /0 = 0 and / (b * c) = / b * / c always *)
Theorem chain_l_div_eval : forall rho penv t r,
  evalR rho penv (chain_l Div (t :: r)) =
  evalR rho penv t / prodR (map (evalR rho penv) r).
Proof.
  intros rho penv t r. unfold chain_l. revert t.
  induction r as [|x r IH]; intros t; simpl.
  - unfold Rdiv. rewrite Rinv_1. ring.
  - rewrite IH. simpl. unfold Rdiv. rewrite Rinv_mult. ring.
Qed.

(* ------------------------------------------------------------------ *)
(** * 3. Variable discovery *)

Lemma flat_map_mfold (ts : list expr) :
  mfold (list string) (@app string) [] (map vars ts) = flat_map vars ts.
Proof. induction ts as [|t r IH]; simpl; [reflexivity|]. now rewrite IH. Qed.

(* the occurrence LIST itself (order and repeats included) is shape-independent *)
Theorem chain_vars : forall o ts, ts <> [] ->
  vars (chain_l o ts) = flat_map vars ts /\
  vars (chain_r o ts) = flat_map vars ts /\
  vars (chain_bal o ts) = flat_map vars ts.
Proof.
  intros o ts Hne. rewrite <- flat_map_mfold.
  apply (chain_shapes_F (list string) (@app string) []); try exact Hne.
  - intros a b c. symmetry. apply app_assoc.
  - reflexivity.
  - apply app_nil_r.
  - reflexivity.
Qed.

Theorem chain_vars_same_names : forall o ts,
  same_names (vars (chain_l o ts)) (vars (chain_bal o ts)) /\
  same_names (vars (chain_r o ts)) (vars (chain_bal o ts)).
Proof.
  intros o [|t r]; [split; apply same_names_refl|].
  destruct (chain_vars o (t :: r)) as [H1 [H2 H3]]; [discriminate|].
  rewrite H1, H2, H3. split; apply same_names_refl.
Qed.

Theorem chain_variables_shape_indep : forall o ts,
  sort_vars (dedup (vars (chain_l o ts))) = sort_vars (dedup (vars (chain_bal o ts))) /\
  sort_vars (dedup (vars (chain_r o ts))) = sort_vars (dedup (vars (chain_bal o ts))).
Proof.
  intros o ts. destruct (chain_vars_same_names o ts) as [H1 H2].
  split; apply sort_dedup_ext; assumption.
Qed.

(* ------------------------------------------------------------------ *)
(** * 4. Degree *)

Lemma omax_assoc a b c : omax (omax a b) c = omax a (omax b c).
Proof.
  destruct a as [x|], b as [y|], c as [z|]; simpl; try reflexivity.
  now rewrite Nat.max_assoc.
Qed.

Lemma omax_unit_l a : omax (Some 0%nat) a = a.
Proof. destruct a; reflexivity. Qed.

Lemma omax_unit_r a : omax a (Some 0%nat) = a.
Proof. destruct a as [x|]; simpl; [|reflexivity]. now rewrite Nat.max_0_r. Qed.

(* Add and Sub: the degree of a chain is the maximum of the term degrees
   (None as soon as one term is non-polynomial), whatever the shape *)
Theorem chain_addsub_degree : forall o ts, (o = Add \/ o = Sub) -> ts <> [] ->
  degree (chain_l o ts) = fold_right omax (Some 0%nat) (map degree ts) /\
  degree (chain_r o ts) = fold_right omax (Some 0%nat) (map degree ts) /\
  degree (chain_bal o ts) = fold_right omax (Some 0%nat) (map degree ts).
Proof.
  intros o ts Ho Hne.
  apply (chain_shapes_F (option nat) omax (Some 0%nat)); try exact Hne.
  - apply omax_assoc.
  - apply omax_unit_l.
  - apply omax_unit_r.
  - intros a b. destruct Ho as [-> | ->]; reflexivity.
Qed.

Corollary chain_add_degree_shape_indep : forall ts,
  degree (chain_l Add ts) = degree (chain_bal Add ts) /\
  degree (chain_r Add ts) = degree (chain_bal Add ts).
Proof.
  intros [|t r]; [split; reflexivity|].
  destruct (chain_addsub_degree Add (t :: r)) as [H1 [H2 H3]];
    [now left|discriminate|].
  rewrite H1, H2, H3. split; reflexivity.
Qed.

Corollary chain_sub_degree_shape_indep : forall ts,
  degree (chain_l Sub ts) = degree (chain_bal Sub ts) /\
  degree (chain_r Sub ts) = degree (chain_bal Sub ts).
Proof.
  intros [|t r]; [split; reflexivity|].
  destruct (chain_addsub_degree Sub (t :: r)) as [H1 [H2 H3]];
    [now right|discriminate|].
  rewrite H1, H2, H3. split; reflexivity.
Qed.

(* Mul: the rule [deg_mul] is associative with unit [Some 0] *)
Lemma deg_mul_assoc a b c : deg_mul (deg_mul a b) c = deg_mul a (deg_mul b c).
Proof.
  destruct a as [x|], b as [y|], c as [z|]; simpl; try reflexivity.
  - destruct x as [|x], y as [|y], z as [|z]; simpl; try reflexivity;
      try (f_equal; lia).
  - destruct ((0 <? x)%nat && (0 <? y)%nat); reflexivity.
Qed.

Lemma deg_mul_unit_l a : deg_mul (Some 0%nat) a = a.
Proof. destruct a; reflexivity. Qed.

Lemma deg_mul_unit_r a : deg_mul a (Some 0%nat) = a.
Proof.
  destruct a as [x|]; simpl; [|reflexivity].
  rewrite andb_false_r. f_equal. lia.
Qed.

Theorem chain_mul_degree : forall ts, ts <> [] ->
  degree (chain_l Mul ts) = fold_right deg_mul (Some 0%nat) (map degree ts) /\
  degree (chain_r Mul ts) = fold_right deg_mul (Some 0%nat) (map degree ts) /\
  degree (chain_bal Mul ts) = fold_right deg_mul (Some 0%nat) (map degree ts).
Proof.
  intros ts Hne.
  apply (chain_shapes_F (option nat) deg_mul (Some 0%nat)); try exact Hne.
  - apply deg_mul_assoc.
  - apply deg_mul_unit_l.
  - apply deg_mul_unit_r.
  - reflexivity.
Qed.

Corollary chain_mul_degree_shape_indep : forall ts,
  degree (chain_l Mul ts) = degree (chain_bal Mul ts) /\
  degree (chain_r Mul ts) = degree (chain_bal Mul ts).
Proof.
  intros [|t r]; [split; reflexivity|].
  destruct (chain_mul_degree (t :: r)) as [H1 [H2 H3]]; [discriminate|].
  rewrite H1, H2, H3. split; reflexivity.
Qed.

(* the [deg_mul]-fold as a function of the multiset of factor degrees:
   None if some factor is non-polynomial or at least two factors have positive
   degree; otherwise the sum of the degrees *)
Definition is_some {B} (x : option B) : bool := match x with Some _ => true | None => false end.
Definition dval (d : option nat) : nat := match d with Some x => x | None => 0%nat end.
Definition dpos (d : option nat) : bool := match d with Some (S _) => true | _ => false end.
Definition count_pos (ds : list (option nat)) : nat := length (filter dpos ds).
Definition sum_deg (ds : list (option nat)) : nat := fold_right (fun d n => (dval d + n)%nat) 0%nat ds.

Definition deg_mul_spec (ds : list (option nat)) : option nat :=
  if forallb is_some ds && (count_pos ds <=? 1)%nat then Some (sum_deg ds) else None.

Lemma sum_deg_zero ds : forallb is_some ds = true -> (sum_deg ds = 0%nat <-> count_pos ds = 0%nat).
Proof.
  unfold count_pos. induction ds as [|d ds IH]; simpl; intros Hs; [tauto|].
  apply andb_true_iff in Hs. destruct Hs as [Hd Hs]. specialize (IH Hs).
  destruct d as [[|x]|]; simpl in *; try discriminate.
  - exact IH.
  - split; intros H; lia.
Qed.

Lemma deg_mul_fold_spec ds : fold_right deg_mul (Some 0%nat) ds = deg_mul_spec ds.
Proof.
  induction ds as [|d ds IH]; [reflexivity|].
  simpl fold_right. rewrite IH. unfold deg_mul_spec. simpl forallb.
  destruct d as [x|]; [|reflexivity]. simpl is_some. rewrite andb_true_l.
  destruct (forallb is_some ds) eqn:Hs; rewrite ?andb_true_l, ?andb_false_l; [|reflexivity].
  pose proof (sum_deg_zero ds Hs) as Hz.
  unfold count_pos in *. simpl filter. simpl sum_deg. fold (sum_deg ds).
  destruct x as [|x].
  - simpl dpos. cbv iota. rewrite deg_mul_unit_l. reflexivity.
  - simpl dpos. cbv iota. simpl length.
    remember (length (filter dpos ds)) as c eqn:Ec.
    destruct c as [|[|c]].
    + assert (H0 : sum_deg ds = 0%nat) by (apply Hz; reflexivity).
      rewrite H0. reflexivity.
    + destruct (sum_deg ds) as [|s] eqn:Es.
      * exfalso. assert (H1 : 1%nat = 0%nat) by (apply Hz; reflexivity). discriminate.
      * reflexivity.
    + reflexivity.
Qed.

Theorem chain_mul_degree_spec : forall ts, ts <> [] ->
  degree (chain_l Mul ts) = deg_mul_spec (map degree ts) /\
  degree (chain_r Mul ts) = deg_mul_spec (map degree ts) /\
  degree (chain_bal Mul ts) = deg_mul_spec (map degree ts).
Proof.
  intros ts Hne. rewrite <- deg_mul_fold_spec. apply chain_mul_degree, Hne.
Qed.

(* ------------------------------------------------------------------ *)
(** * 5. Gradient of Add chains *)

Theorem chain_add_grad_eval : forall ln2c ln10c v rho penv ts, ts <> [] ->
  evalR rho penv (grad ln2c ln10c v (chain_l Add ts)) =
    sumR (map (fun t => evalR rho penv (grad ln2c ln10c v t)) ts) /\
  evalR rho penv (grad ln2c ln10c v (chain_r Add ts)) =
    sumR (map (fun t => evalR rho penv (grad ln2c ln10c v t)) ts) /\
  evalR rho penv (grad ln2c ln10c v (chain_bal Add ts)) =
    sumR (map (fun t => evalR rho penv (grad ln2c ln10c v t)) ts).
Proof.
  intros ln2c ln10c v rho penv ts Hne.
  apply (chain_shapes_F R Rplus 0 (fun a b c => Rplus_assoc a b c) Rplus_0_l Rplus_0_r
           (fun t => evalR rho penv (grad ln2c ln10c v t)) Add); [|exact Hne].
  intros a b. simpl grad. unfold binary_grad. apply s_add_ev.
Qed.

Corollary chain_add_grad_shape_indep : forall ln2c ln10c v rho penv ts,
  evalR rho penv (grad ln2c ln10c v (chain_l Add ts)) =
    evalR rho penv (grad ln2c ln10c v (chain_bal Add ts)) /\
  evalR rho penv (grad ln2c ln10c v (chain_r Add ts)) =
    evalR rho penv (grad ln2c ln10c v (chain_bal Add ts)).
Proof.
  intros ln2c ln10c v rho penv [|t r]; [split; reflexivity|].
  destruct (chain_add_grad_eval ln2c ln10c v rho penv (t :: r)) as [H1 [H2 H3]];
    [discriminate|].
  rewrite H1, H2, H3. split; reflexivity.
Qed.

(* Sub left chains: gradient value is d t - sum of the d r_i *)
Theorem chain_l_sub_grad_eval : forall ln2c ln10c v rho penv t r,
  evalR rho penv (grad ln2c ln10c v (chain_l Sub (t :: r))) =
  evalR rho penv (grad ln2c ln10c v t) -
  sumR (map (fun x => evalR rho penv (grad ln2c ln10c v x)) r).
Proof.
  intros ln2c ln10c v rho penv t r. unfold chain_l. revert t.
  induction r as [|x r IH]; intros t; simpl fold_left; simpl map; simpl sumR.
  - ring.
  - rewrite IH. simpl grad. unfold binary_grad. rewrite s_sub_ev. ring.
Qed.

(* ------------------------------------------------------------------ *)
(** * Non-vacuity: five concrete terms *)

Open Scope string_scope.
Definition ex_terms : list expr :=
  [ Var "x1"; Bin Mul (Const 3%Q) (Var "x2"); Const 7%Q;
    Bin Pow (Var "x1") (Const 2%Q); Un Neg (Var "x3") ].

Example ex_shapes_differ :
  expr_eqb (chain_l Add ex_terms) (chain_bal Add ex_terms) = false /\
  expr_eqb (chain_r Add ex_terms) (chain_bal Add ex_terms) = false /\
  expr_eqb (chain_l Add ex_terms) (chain_r Add ex_terms) = false.
Proof. vm_compute. repeat split. Qed.

Example ex_bal_shape :
  chain_bal Add ex_terms =
  Bin Add (Bin Add (Var "x1") (Bin Mul (Const 3%Q) (Var "x2")))
          (Bin Add (Const 7%Q)
                   (Bin Add (Bin Pow (Var "x1") (Const 2%Q)) (Un Neg (Var "x3")))).
Proof. vm_compute. reflexivity. Qed.

Example ex_degree :
  degree (chain_l Add ex_terms) = Some 2%nat /\
  degree (chain_r Add ex_terms) = Some 2%nat /\
  degree (chain_bal Add ex_terms) = Some 2%nat /\
  degree (chain_l Mul ex_terms) = None /\
  degree (chain_bal Mul ex_terms) = None /\
  degree (chain_l Mul [Const 2%Q; Var "x1"; Const 5%Q]) = Some 1%nat /\
  degree (chain_bal Mul [Const 2%Q; Var "x1"; Const 5%Q]) = Some 1%nat.
Proof. vm_compute. repeat split. Qed.

Example ex_vars :
  vars (chain_l Add ex_terms) = ["x1"; "x2"; "x1"; "x3"] /\
  vars (chain_bal Add ex_terms) = ["x1"; "x2"; "x1"; "x3"] /\
  sort_vars (dedup (vars (chain_r Sub ex_terms))) = ["x1"; "x2"; "x3"].
Proof. vm_compute. repeat split. Qed.
Close Scope string_scope.

Print Assumptions chain_add_eval.
Print Assumptions chain_mul_eval.
Print Assumptions chain_l_sub_eval.
Print Assumptions chain_l_div_eval.
Print Assumptions chain_variables_shape_indep.
Print Assumptions chain_addsub_degree.
Print Assumptions chain_mul_degree_spec.
Print Assumptions chain_add_grad_eval.
