(* ArrTerm.v — the little language into which tools/translate.py translates the
   straight-line NumPy closures of the vectorised derivative paths
   (compiler.py _compile_vectorized_power_gradient / _compile_vectorized_unary_gradient,
   autodiff.py compile_hessian).  An [eterm] is the per-element function applied
   to every vector element; a [centry] records which dispatch case the closure
   belongs to, whether it is the full or the sparse (scatter into zeros)
   variant, and whether its result passes through _sanitize_derivatives.
   No proofs here (see ArrTermProofs.v). *)
From Coq Require Import String List QArith ZArith Bool Reals Qreals.
From Optyx Require Import Syntax SemR.
Import ListNotations.
Close Scope Q_scope.

Inductive eterm :=
| EX                                   (* the element x_i (x or x[indices]) *)
| ELit (q : Q)                         (* numeric literal *)
| EK                                   (* the closure variable k (the power) *)
| ENeg (a : eterm)
| ENp (o : uop) (a : eterm)            (* np.<f>(a) *)
| ESign (a : eterm)                    (* np.sign(a) *)
| EBin (o : bop) (a b : eterm).        (* a op b ; ** and np.power are Pow *)

Inductive ccase :=
| CaseOp (o : uop)        (* op == "<name>" *)
| CaseK (k : Z)           (* k == <int> *)
| CaseKOther              (* the else branch of the k dispatch *)
| CaseKAny.               (* no k dispatch (sparse power gradient) *)

Record centry := mk_centry {
  c_name : string; c_case : ccase; c_sparse : bool; c_sanitized : bool; c_body : eterm }.

(* sign as NumPy defines it on reals *)
Definition sgn (a : R) : R :=
  match Rlt_dec 0 a with
  | left _ => 1%R
  | right _ => match Rlt_dec a 0 with left _ => (-1)%R | right _ => 0%R end
  end.

(* per-element denotation over the reals; k is the power of the enclosing node.
   ** with a literal/closure-constant exponent is read with [powQ] exactly as
   [evalR] reads  a ** Const q. *)
Fixpoint eden (k : Q) (t : R) (e : eterm) {struct e} : R :=
  match e with
  | EX => t
  | ELit q => Q2R q
  | EK => Q2R k
  | ENeg a => (- eden k t a)%R
  | ENp o a => uopR o (eden k t a)
  | ESign a => sgn (eden k t a)
  | EBin o a b =>
      match o with
      | Pow => match econst k b with
               | Some q => powQ (eden k t a) q
               | None => Rpower (eden k t a) (eden k t b)
               end
      | _ => bopR o (eden k t a) (eden k t b)
      end
  end
(* value of an exponent sub-term that does not mention x (rational arithmetic on k) *)
with econst (k : Q) (e : eterm) {struct e} : option Q :=
  match e with
  | ELit q => Some q
  | EK => Some k
  | ENeg a => match econst k a with Some x => Some (- x)%Q | None => None end
  | EBin Add a b => match econst k a, econst k b with Some x, Some y => Some (x + y)%Q | _, _ => None end
  | EBin Sub a b => match econst k a, econst k b with Some x, Some y => Some (x - y)%Q | _, _ => None end
  | EBin Mul a b => match econst k a, econst k b with Some x, Some y => Some (x * y)%Q | _, _ => None end
  | _ => None
  end.

Definition find_entry (tbl : list centry) (c : ccase -> bool) (sparse : bool) : option centry :=
  find (fun e => c (c_case e) && Bool.eqb (c_sparse e) sparse) tbl.
