(* ParamProofs.v — property C12: after any sequence of parameter updates every
   observation (evaluation, degree analysis, derivative) equals what a freshly
   built model would give if each parameter were replaced by a constant holding
   its current value.  The "fresh model" is [Params.subst]; the valuation in
   force after a history of updates is [Params.after_sets].

   Main results: [subst_eval] (evaluation), [has_param_degree] (a model with a
   parameter is never classified polynomial, so no coefficient is ever
   extracted from a parameter value), [subst_no_param], [subst_id],
   [grad_subst_eval] (derivatives), [after_sets_last], [after_sets_other],
   [observation_after_updates], [gradient_after_updates]. *)
From Coq Require Import Reals QArith Qreals String List Bool ZArith Lia Lra.
From Optyx Require Import Syntax SemR Degree Autodiff AutodiffLemmas AutodiffProofs Params.
Import ListNotations.
Close Scope Q_scope.
Open Scope R_scope.

(* ------------------------------------------------------------------ *)
(** * Generic helpers *)

Lemma Forall_fold_dom (P : expr -> Prop) (Q : expr -> Prop) es :
  Forall (fun e => P e -> Q e) es ->
  fold_right (fun e R => P e /\ R) True es -> Forall Q es.
Proof.
  intros HF HP. apply fold_and_Forall in HP. exact (Forall_mp _ _ _ HF HP).
Qed.

Lemma map_map_Forall {B} (f : expr -> B) (h : expr -> expr) (f' : expr -> B) es :
  Forall (fun e => f e = f' (h e)) es -> map f es = map f' (map h es).
Proof. intros H. rewrite map_map. now apply map_ext_Forall'. Qed.

(* for a positive base the two readings of a power coincide *)
Lemma Rpower_powQ a q : 0 < a -> Rpower a (Q2R q) = powQ a q.
Proof.
  intros Ha. unfold powQ. destruct (Qis_int q) eqn:Hi; [|reflexivity].
  rewrite (Qint_Q2R q Hi). symmetry. now apply powerRZ_Rpower.
Qed.

Lemma powQ_reg_pos a q : 0 < a -> powQ_reg a q.
Proof. intros Ha. unfold powQ_reg. destruct (Qis_int q); [right; lra|exact Ha]. Qed.

(* ------------------------------------------------------------------ *)
(** * Every regular point is a point of the domain *)

Lemma uop_reg_dom o a : uop_reg o a -> uop_dom o a.
Proof. destruct o; simpl; intros H; try exact H; try exact I; lra. Qed.

Lemma regular_dom rho penv e : regular rho penv e -> dom rho penv e.
Proof.
  pattern e; apply expr_ind_strong; clear e;
    [intros q|intros x|intros p|intros o l r IHl IHr|intros o a IHa|intros i xs
    |intros cs k es IH|intros kl ls kr rs IHls IHrs
    |intros k es IH|intros k es IH|intros k es m IH|intros i xs p|intros i xs o
    |intros es IH|intros b es IH|intros es IH]; simpl; try exact (fun H => H).
  - intros [Hl [Hr Ho]]. split; [auto|split; [auto|]].
    destruct o; exact Ho.
  - intros [Ha Ho]. split; [auto|now apply uop_reg_dom].
  - intros H. apply fold_and_Forall. exact (Forall_fold_dom _ _ es IH H).
  - intros [H1 H2]. split; apply fold_and_Forall;
      [exact (Forall_fold_dom _ _ ls IHls H1)|exact (Forall_fold_dom _ _ rs IHrs H2)].
  - intros [H _]. apply fold_and_Forall. exact (Forall_fold_dom _ _ es IH H).
  - intros H. apply fold_and_Forall.
    apply (fold_and_Forall (fun e => regular rho penv e /\ evalR rho penv e <> 0)) in H.
    apply (Forall_mp _ _ _ IH). eapply Forall_impl; [|exact H]. intros a [Ha _]. exact Ha.
  - intros H. apply fold_and_Forall. exact (Forall_fold_dom _ _ es IH H).
  - induction xs as [|x xs IHxs]; simpl; [tauto|].
    intros [H1 H2]. split; [now apply uop_reg_dom|auto].
  - intros H. apply fold_and_Forall. exact (Forall_fold_dom _ _ es IH H).
  - intros H. apply fold_and_Forall. exact (Forall_fold_dom _ _ es IH H).
  - intros [H _]. apply fold_and_Forall. exact (Forall_fold_dom _ _ es IH H).
Qed.

(* ------------------------------------------------------------------ *)
(** * 1. Evaluation honours the current parameter values *)

Section SubstEval.
  Variable pq : string -> Q.
  Variables rho penv' : env.
  Notation penv := (fun p : string => Q2R (pq p)).
  Notation ev := (evalR rho penv).
  Notation ev' := (evalR rho penv').
  Notation sb := (subst pq).

  (* the exponent of a power after substitution: literal iff it was a literal
     or a parameter *)
  Lemma pow_exponent_cases r :
    (exists q, r = Const q) \/ (exists p, r = Param p) \/
    (is_const r = false /\ is_const (sb r) = false).
  Proof.
    destruct r; try (right; right; split; reflexivity).
    - left. eexists; reflexivity.
    - right; left. eexists; reflexivity.
  Qed.

  Lemma subst_eval_aux e : dom rho penv e -> ev e = ev' (sb e).
  Proof.
    pattern e; apply expr_ind_strong; clear e;
      [intros q|intros x|intros p|intros o l r IHl IHr|intros o a IHa|intros i xs
      |intros cs k es IH|intros kl ls kr rs IHls IHrs
      |intros k es IH|intros k es IH|intros k es m IH|intros i xs p|intros i xs o
      |intros es IH|intros b es IH|intros es IH]; try reflexivity.
    - (* Bin *)
      intros [Hl [Hr Ho]]. specialize (IHl Hl). specialize (IHr Hr).
      destruct o; try (simpl; rewrite IHl, IHr; reflexivity).
      destruct (pow_exponent_cases r) as [[q ->]|[[p ->]|[Hc Hc']]].
      + simpl. rewrite IHl. reflexivity.
      + simpl in Ho. simpl. rewrite <- IHl. now apply Rpower_powQ.
      + change (sb (Bin Pow l r)) with (Bin Pow (sb l) (sb r)).
        rewrite (evalR_pow_gen rho penv l r Hc), (evalR_pow_gen rho penv' (sb l) (sb r) Hc').
        rewrite IHl, IHr. reflexivity.
    - (* Un *)
      intros [Ha _]. simpl. rewrite (IHa Ha). reflexivity.
    - (* LinComb *)
      intros H. simpl in H. pose proof (Forall_fold_dom _ _ es IH H) as HF.
      simpl. rewrite (map_map_Forall ev sb ev' es HF). reflexivity.
    - (* Dot *)
      intros [H1 H2].
      pose proof (Forall_fold_dom _ _ ls IHls H1) as HF1.
      pose proof (Forall_fold_dom _ _ rs IHrs H2) as HF2.
      simpl. rewrite (map_map_Forall ev sb ev' ls HF1), (map_map_Forall ev sb ev' rs HF2).
      reflexivity.
    - (* L2n *)
      intros H. simpl in H. pose proof (Forall_fold_dom _ _ es IH H) as HF.
      simpl. do 2 f_equal. rewrite map_map. apply map_ext_Forall'.
      eapply Forall_impl; [|exact HF]. intros a Ha. simpl. now rewrite Ha.
    - (* L1n *)
      intros H. simpl in H. pose proof (Forall_fold_dom _ _ es IH H) as HF.
      simpl. f_equal. rewrite map_map. apply map_ext_Forall'.
      eapply Forall_impl; [|exact HF]. intros a Ha. simpl. now rewrite Ha.
    - (* QForm *)
      intros H. simpl in H. pose proof (Forall_fold_dom _ _ es IH H) as HF.
      simpl. rewrite (map_map_Forall ev sb ev' es HF). reflexivity.
    - (* VExprSum *)
      intros H. simpl in H. pose proof (Forall_fold_dom _ _ es IH H) as HF.
      simpl. rewrite (map_map_Forall ev sb ev' es HF). reflexivity.
    - (* MSum *)
      intros H. simpl in H. pose proof (Forall_fold_dom _ _ es IH H) as HF.
      simpl. rewrite (map_map_Forall ev sb ev' es HF). reflexivity.
    - (* Frob *)
      intros H. simpl in H. pose proof (Forall_fold_dom _ _ es IH H) as HF.
      simpl. do 2 f_equal. rewrite map_map. apply map_ext_Forall'.
      eapply Forall_impl; [|exact HF]. intros a Ha. simpl. now rewrite Ha.
  Qed.
End SubstEval.

Theorem subst_eval : forall pq e rho penv',
  dom rho (fun p => Q2R (pq p)) e ->
  evalR rho (fun p => Q2R (pq p)) e = evalR rho penv' (subst pq e).
Proof. intros pq e rho penv' H. now apply subst_eval_aux. Qed.

(* ------------------------------------------------------------------ *)
(** * 3. The fresh model has no parameter; a parameter-free model is its own
      fresh model; a parameter-free tree does not read the parameter store *)

Lemma existsb_map_false {B} (f : B -> bool) (h : B -> B) (l : list B) :
  Forall (fun a => f (h a) = false) l -> existsb f (map h l) = false.
Proof. induction 1 as [|a l Ha Hl IH]; simpl; [reflexivity|]. now rewrite Ha, IH. Qed.

Theorem subst_no_param : forall pq e, has_param (subst pq e) = false.
Proof.
  intros pq e. pattern e; apply expr_ind_strong; clear e; simpl; intros;
    try reflexivity;
    repeat match goal with
           | H : Forall _ _ |- _ => apply existsb_map_false in H; rewrite H; clear H
           | H : has_param _ = false |- _ => rewrite H; clear H
           end; reflexivity.
Qed.

Lemma map_id_Forall {B} (h : B -> B) (l : list B) :
  Forall (fun a => h a = a) l -> map h l = l.
Proof. induction 1 as [|a l Ha Hl IH]; simpl; [reflexivity|]. now rewrite Ha, IH. Qed.

Lemma existsb_false_mp {B} (f : B -> bool) (P : B -> Prop) (l : list B) :
  Forall (fun a => f a = false -> P a) l -> existsb f l = false -> Forall P l.
Proof.
  intros HF H. apply existsb_false_Forall in H. exact (Forall_mp _ _ _ HF H).
Qed.

Theorem subst_id : forall pq e, has_param e = false -> subst pq e = e.
Proof.
  intros pq e. pattern e; apply expr_ind_strong; clear e; simpl;
    [intros q|intros x|intros p|intros o l r IHl IHr|intros o a IHa|intros i xs
    |intros cs k es IH|intros kl ls kr rs IHls IHrs
    |intros k es IH|intros k es IH|intros k es m IH|intros i xs p|intros i xs o
    |intros es IH|intros b es IH|intros es IH]; intros H;
    try reflexivity; try discriminate.
  - apply orb_false_iff in H. destruct H as [H1 H2]. now rewrite IHl, IHr.
  - now rewrite IHa.
  - now rewrite (map_id_Forall _ _ (existsb_false_mp _ _ _ IH H)).
  - apply orb_false_iff in H. destruct H as [H1 H2].
    now rewrite (map_id_Forall _ _ (existsb_false_mp _ _ _ IHls H1)),
                (map_id_Forall _ _ (existsb_false_mp _ _ _ IHrs H2)).
  - now rewrite (map_id_Forall _ _ (existsb_false_mp _ _ _ IH H)).
  - now rewrite (map_id_Forall _ _ (existsb_false_mp _ _ _ IH H)).
  - now rewrite (map_id_Forall _ _ (existsb_false_mp _ _ _ IH H)).
  - now rewrite (map_id_Forall _ _ (existsb_false_mp _ _ _ IH H)).
  - now rewrite (map_id_Forall _ _ (existsb_false_mp _ _ _ IH H)).
  - now rewrite (map_id_Forall _ _ (existsb_false_mp _ _ _ IH H)).
Qed.

Theorem no_param_eval : forall e rho penv1 penv2,
  has_param e = false -> evalR rho penv1 e = evalR rho penv2 e.
Proof.
  intros e rho penv1 penv2. pattern e; apply expr_ind_strong; clear e;
    [intros q|intros x|intros p|intros o l r IHl IHr|intros o a IHa|intros i xs
    |intros cs k es IH|intros kl ls kr rs IHls IHrs
    |intros k es IH|intros k es IH|intros k es m IH|intros i xs p|intros i xs o
    |intros es IH|intros b es IH|intros es IH]; simpl has_param; intros H;
    try reflexivity; try discriminate.
  - apply orb_false_iff in H. destruct H as [H1 H2].
    destruct o; simpl; rewrite (IHl H1), (IHr H2); reflexivity.
  - simpl. now rewrite (IHa H).
  - simpl. now rewrite (map_ext_Forall' _ _ _ (existsb_false_mp _ _ _ IH H)).
  - apply orb_false_iff in H. destruct H as [H1 H2]. simpl.
    now rewrite (map_ext_Forall' _ _ _ (existsb_false_mp _ _ _ IHls H1)),
                (map_ext_Forall' _ _ _ (existsb_false_mp _ _ _ IHrs H2)).
  - simpl. do 2 f_equal. apply map_ext_Forall'.
    eapply Forall_impl; [|exact (existsb_false_mp _ _ _ IH H)]. intros a Ha. simpl. now rewrite Ha.
  - simpl. f_equal. apply map_ext_Forall'.
    eapply Forall_impl; [|exact (existsb_false_mp _ _ _ IH H)]. intros a Ha. simpl. now rewrite Ha.
  - simpl. now rewrite (map_ext_Forall' _ _ _ (existsb_false_mp _ _ _ IH H)).
  - simpl. now rewrite (map_ext_Forall' _ _ _ (existsb_false_mp _ _ _ IH H)).
  - simpl. now rewrite (map_ext_Forall' _ _ _ (existsb_false_mp _ _ _ IH H)).
  - simpl. do 2 f_equal. apply map_ext_Forall'.
    eapply Forall_impl; [|exact (existsb_false_mp _ _ _ IH H)]. intros a Ha. simpl. now rewrite Ha.
Qed.

(* the fresh model does not read the parameter store at all *)
Corollary subst_eval_store_free : forall pq e rho penv1 penv2,
  evalR rho penv1 (subst pq e) = evalR rho penv2 (subst pq e).
Proof. intros. apply no_param_eval, subst_no_param. Qed.

(* ------------------------------------------------------------------ *)
(** * 2. A model with a parameter is never classified polynomial *)

Lemma fold_omax_None (es : list expr) :
  Exists (fun e => degree e = None) es ->
  fold_right (fun e acc => omax (degree e) acc) (Some 0%nat) es = None.
Proof.
  induction 1 as [e es He|e es Hes IH]; simpl.
  - rewrite He. reflexivity.
  - rewrite IH. destruct (degree e); reflexivity.
Qed.

Lemma existsb_Exists_mp (P : expr -> Prop) (es : list expr) :
  Forall (fun e => wf e = true -> has_param e = true -> P e) es ->
  forallb wf es = true -> existsb has_param es = true -> Exists P es.
Proof.
  induction 1 as [|e es He Hes IH]; simpl; intros Hw Hp; [discriminate|].
  apply andb_true_iff in Hw. destruct Hw as [Hw1 Hw2].
  apply orb_true_iff in Hp. destruct Hp as [Hp|Hp].
  - left. auto.
  - right. auto.
Qed.

(* a VectorVariable operand holds Var nodes only: no parameter inside *)
Lemma kind_wf_KVar_no_param i es : kind_wf (KVar i) es = true -> existsb has_param es = false.
Proof.
  intros H. destruct (kind_wf_KVar i es H) as [xs [-> _]]. clear H.
  induction xs as [|x xs IH]; simpl; [reflexivity|exact IH].
Qed.

Lemma vec_degree_None k es :
  Forall (fun e => wf e = true -> has_param e = true -> degree e = None) es ->
  kind_wf k es = true -> forallb wf es = true -> existsb has_param es = true ->
  match k with
  | KVar _ => Some 1%nat
  | KExpr => fold_right (fun e acc => omax (degree e) acc) (Some 0%nat) es
  end = None.
Proof.
  intros IH Hk Hw Hp. destruct k as [i|].
  - rewrite (kind_wf_KVar_no_param i es Hk) in Hp. discriminate.
  - apply fold_omax_None. exact (existsb_Exists_mp _ es IH Hw Hp).
Qed.

Ltac split_andb :=
  repeat match goal with
         | H : _ && _ = true |- _ => apply andb_true_iff in H; destruct H
         end.

Theorem has_param_degree : forall e, wf e = true -> has_param e = true -> degree e = None.
Proof.
  intros e. pattern e; apply expr_ind_strong; clear e;
    [intros q|intros x|intros p|intros o l r IHl IHr|intros o a IHa|intros i xs
    |intros cs k es IH|intros kl ls kr rs IHls IHrs
    |intros k es IH|intros k es IH|intros k es m IH|intros i xs p|intros i xs o
    |intros es IH|intros b es IH|intros es IH]; simpl wf; simpl has_param; intros Hw Hp;
    try discriminate; try reflexivity.
  - (* Bin *)
    split_andb. simpl degree. apply orb_true_iff in Hp. destruct Hp as [Hp|Hp].
    + rewrite (IHl H Hp). destruct o; simpl; try reflexivity.
      * destruct r; reflexivity.
      * destruct r; try reflexivity. unfold deg_pow. destruct (natural_power q); reflexivity.
    + rewrite (IHr H0 Hp). destruct o; simpl; try (destruct (degree l); reflexivity).
      * destruct r; try reflexivity. discriminate.
      * destruct r; try reflexivity. discriminate.
  - (* Un *)
    simpl degree. rewrite (IHa Hw Hp). destruct o; reflexivity.
  - (* LinComb *)
    split_andb. simpl degree. exact (vec_degree_None k es IH H1 H0 Hp).
  - (* Dot *)
    split_andb. simpl degree. apply orb_true_iff in Hp. destruct Hp as [Hp|Hp].
    + rewrite (vec_degree_None kl ls IHls H3 H1 Hp). reflexivity.
    + rewrite (vec_degree_None kr rs IHrs H2 H0 Hp).
      destruct (match kl with KVar _ => _ | KExpr => _ end); reflexivity.
  - (* QForm *)
    split_andb. simpl degree. rewrite (vec_degree_None k es IH H H2 Hp). reflexivity.
Qed.

(* [wf] cannot be dropped: a VectorVariable-kind node is given degree 1 without
   looking at its elements; the API never builds this tree. *)
Example has_param_degree_needs_wf :
  let e := LinComb [1%Q] (KVar 0%N) [Param "p"%string] in
  has_param e = true /\ degree e = Some 1%nat /\ wf e = false.
Proof. repeat split. Qed.

Corollary has_param_not_linear : forall e, wf e = true -> has_param e = true ->
  is_linear e = false /\ is_quadratic e = false.
Proof.
  intros e Hw Hp. unfold is_linear, is_quadratic. rewrite (has_param_degree e Hw Hp).
  split; reflexivity.
Qed.

(* ------------------------------------------------------------------ *)
(** * 5. Histories of updates *)

Lemma after_sets_app pq0 s1 s2 :
  after_sets pq0 (s1 ++ s2) = after_sets (after_sets pq0 s1) s2.
Proof. unfold after_sets. apply fold_left_app. Qed.

Theorem after_sets_last : forall pq0 sets p q, after_sets pq0 (sets ++ [(p, q)]) p = q.
Proof.
  intros pq0 sets p q. rewrite after_sets_app. unfold after_sets at 1. simpl.
  unfold pupdate. now rewrite String.eqb_refl.
Qed.

Theorem after_sets_other : forall pq0 sets p q x,
  String.eqb x p = false ->
  after_sets pq0 (sets ++ [(p, q)]) x = after_sets pq0 sets x.
Proof.
  intros pq0 sets p q x Hx. rewrite after_sets_app. unfold after_sets at 1. simpl.
  unfold pupdate. now rewrite Hx.
Qed.

(* a parameter that was never set keeps its initial value *)
Theorem after_sets_untouched : forall pq0 sets x,
  Forall (fun s => String.eqb x (fst s) = false) sets -> after_sets pq0 sets x = pq0 x.
Proof.
  intros pq0 sets x H. revert pq0. unfold after_sets.
  induction H as [|s sets Hs Hsets IH]; intros pq0; simpl; [reflexivity|].
  rewrite IH. unfold pupdate. now rewrite Hs.
Qed.

Corollary observation_after_updates : forall pq0 sets e rho penv',
  dom rho (fun p => Q2R (after_sets pq0 sets p)) e ->
  evalR rho (fun p => Q2R (after_sets pq0 sets p)) e =
  evalR rho penv' (subst (after_sets pq0 sets) e).
Proof. intros pq0 sets e rho penv' H. now apply subst_eval. Qed.

(* ------------------------------------------------------------------ *)
(** * 4. Gradients honour the current parameter values *)

(* value of the literal-exponent power rule *)
Lemma binary_grad_pow_const_ev rho penv l q dl dr :
  powQ_reg (evalR rho penv l) q ->
  evalR rho penv (binary_grad Pow l (Const q) dl dr) =
  if Qeq_bool q 0 then 0
  else if Qeq_bool q 1 then evalR rho penv dl
  else Q2R q * powQ (evalR rho penv l) (q - 1) * evalR rho penv dl.
Proof.
  intros Hreg. unfold binary_grad.
  destruct (Qeq_bool q 0) eqn:E0; [apply ev_c0|].
  destruct (Qeq_bool q 1) eqn:E1; [reflexivity|].
  rewrite !s_mul_ev, s_pow_ev; [reflexivity|].
  intros Hz _ _. rewrite (is_zero_ev _ _ _ Hz) in Hreg.
  unfold powQ_reg in Hreg. rewrite Qis_int_minus1, Qfloor_minus1.
  destruct (Qis_int q) eqn:Hi; [|lra]. split; [reflexivity|].
  destruct Hreg as [Hreg|Hreg]; [|lra].
  assert (H0 : Qfloor' q <> 0%Z).
  { intros H. pose proof (Qint_floor_eq q 0 Hi H) as Hq.
    change (Qeq_bool q 0 = true) in Hq. congruence. }
  assert (H1 : Qfloor' q <> 1%Z).
  { intros H. pose proof (Qint_floor_eq q 1 Hi H) as Hq.
    change (Qeq_bool q 1 = true) in Hq. congruence. }
  lia.
Qed.

(* value of the general power rule *)
Lemma binary_grad_pow_gen_ev rho penv l r dl dr :
  is_const r = false ->
  evalR rho penv (binary_grad Pow l r dl dr) =
  Rpower (evalR rho penv l) (evalR rho penv r) *
  (evalR rho penv dr * ln (evalR rho penv l) +
   evalR rho penv r * evalR rho penv dl / evalR rho penv l).
Proof.
  intros Hc. rewrite (binary_grad_pow_gen l r dl dr Hc).
  rewrite s_mul_ev, s_add_ev, s_div_ev, !s_mul_ev, (evalR_pow_gen rho penv l r Hc).
  reflexivity.
Qed.

(* the real identity behind a parameter exponent: for a > 0,
   a^b * (0 * ln a + b * da / a)  =  b * a^(b-1) * da   (and its q = 0, 1 forms) *)
Lemma pow_param_identity a q da :
  0 < a ->
  Rpower a (Q2R q) * (0 * ln a + Q2R q * da / a) =
  if Qeq_bool q 0 then 0
  else if Qeq_bool q 1 then da
  else Q2R q * powQ a (q - 1) * da.
Proof.
  intros Ha.
  destruct (Qeq_bool q 0) eqn:E0.
  - rewrite (Qeq_bool_Q2R _ _ E0), Q2R_0'. unfold Rdiv. ring.
  - destruct (Qeq_bool q 1) eqn:E1.
    + rewrite (Qeq_bool_Q2R _ _ E1), Q2R_1', Rpower_1 by exact Ha. field. lra.
    + rewrite <- (Rpower_powQ a (q - 1) Ha), Q2R_minus, Q2R_1'.
      unfold Rminus. rewrite Rpower_plus, Rpower_Ropp, Rpower_1 by exact Ha.
      field. lra.
Qed.

Section GradSubst.
  Variables ln2c ln10c : Q.
  Variable v : string.
  Variable pq : string -> Q.
  Variables rho penv' : env.
  Notation penv := (fun p : string => Q2R (pq p)).
  Notation ev := (evalR rho penv).
  Notation ev' := (evalR rho penv').
  Notation sb := (subst pq).
  Notation g := (grad ln2c ln10c v).

  Lemma subst_eval_reg e : regular rho penv e -> ev e = ev' (sb e).
  Proof. intros H. apply subst_eval_aux, regular_dom, H. Qed.

  Lemma subst_eval_reg_list es :
    Forall (regular rho penv) es -> Forall (fun e => ev e = ev' (sb e)) es.
  Proof. intros H. eapply Forall_impl; [|exact H]. intros a. apply subst_eval_reg. Qed.

  (* --- unary rules: congruence --- *)
  Lemma unary_grad_congr o a a' da da' :
    ev a = ev' a' -> ev da = ev' da' ->
    ev (unary_grad ln2c ln10c o a da) = ev' (unary_grad ln2c ln10c o a' da').
  Proof.
    intros Ha Hd. destruct o; unfold unary_grad;
      rewrite ?s_neg_ev, ?s_mul_ev, ?s_div_ev, ?s_neg_ev, ?s_div_ev, ?s_sub_ev, ?s_add_ev,
        ?s_mul_ev, ?ev_c1, ?ev_c2; simpl;
      rewrite ?s_sub_ev, ?s_add_ev, ?s_mul_ev, ?ev_c1; simpl;
      rewrite ?Ha, ?Hd; reflexivity.
  Qed.

  (* --- binary rules other than Pow: congruence --- *)
  Lemma binary_grad_congr o l r l' r' dl dr dl' dr' :
    o <> Pow ->
    ev l = ev' l' -> ev r = ev' r' -> ev dl = ev' dl' -> ev dr = ev' dr' ->
    ev (binary_grad o l r dl dr) = ev' (binary_grad o l' r' dl' dr').
  Proof.
    intros Ho Hl Hr Hdl Hdr. destruct o; try congruence; unfold binary_grad;
      rewrite ?s_div_ev, ?s_sub_ev, ?s_add_ev, ?s_mul_ev, Hdl, Hdr, ?Hl, ?Hr; reflexivity.
  Qed.

  (* --- names survive substitution --- *)
  Lemma vec_names_subst es : vec_names (map sb es) = vec_names es.
  Proof.
    induction es as [|e es IH]; simpl; [reflexivity|].
    rewrite IH. destruct e; reflexivity.
  Qed.

  Lemma first_coeff_subst cs es : first_coeff v cs (map sb es) = first_coeff v cs es.
  Proof.
    revert cs. induction es as [|e es IH]; intros [|c cs]; simpl; try reflexivity.
    destruct e; simpl; rewrite ?IH; reflexivity.
  Qed.

  Lemma first_coeff_is_const cs es : exists c, first_coeff v cs es = Const c.
  Proof.
    revert cs. induction es as [|e es IH]; intros [|c cs]; simpl;
      try (eexists; reflexivity).
    destruct e; try apply IH. destruct (String.eqb x v); [eexists; reflexivity|apply IH].
  Qed.

  Lemma index_of_subst es k : index_of v (map sb es) k = index_of v es k.
  Proof.
    revert k. induction es as [|e es IH]; intros k; simpl; [reflexivity|].
    destruct e; simpl; rewrite ?IH; reflexivity.
  Qed.

  Lemma map_sb_Var xs : map sb (map Var xs) = map Var xs.
  Proof. rewrite map_map. reflexivity. Qed.

  (* --- the product-rule sum of DotProduct --- *)
  Lemma dot2R_congr ls : forall rs,
    Forall (fun e => ev e = ev' (sb e) /\ ev (g e) = ev' (g (sb e))) ls ->
    Forall (fun e => ev e = ev' (sb e) /\ ev (g e) = ev' (g (sb e))) rs ->
    dot2R ln2c ln10c v rho penv ls rs = dot2R ln2c ln10c v rho penv' (map sb ls) (map sb rs).
  Proof.
    induction ls as [|l ls IH]; intros rs Hl Hr; [reflexivity|].
    destruct rs as [|r rs]; [reflexivity|].
    inversion Hl as [|? ? [Hl1 Hl2] Hl']; subst. inversion Hr as [|? ? [Hr1 Hr2] Hr']; subst.
    simpl map. rewrite !dot2R_cons, (IH rs Hl' Hr'), Hl1, Hl2, Hr1, Hr2. reflexivity.
  Qed.

  (* --- the induction --- *)
  Definition GOK (e : expr) : Prop :=
    wf e = true -> regular rho penv e -> ev (g e) = ev' (g (sb e)).

  Lemma Forall_GOK es :
    Forall GOK es -> forallb wf es = true -> Forall (regular rho penv) es ->
    Forall (fun e => ev (g e) = ev' (g (sb e))) es.
  Proof.
    induction 1 as [|e es He Hes IH]; simpl; intros Hw Hr; [constructor|].
    apply andb_true_iff in Hw. destruct Hw as [Hw1 Hw2]. inversion Hr; subst.
    constructor; [apply He; assumption|apply IH; assumption].
  Qed.

  Lemma map_g_congr es :
    Forall (fun e => ev (g e) = ev' (g (sb e))) es ->
    map ev (map g es) = map ev' (map g (map sb es)).
  Proof. intros H. rewrite !map_map. now apply map_ext_Forall'. Qed.

  Lemma grad_subst_eval_aux e : GOK e.
  Proof.
    pattern e; apply expr_ind_strong; clear e; unfold GOK;
      [intros q|intros x|intros p|intros o l r IHl IHr|intros o a IHa|intros i xs
      |intros cs k es IH|intros kl ls kr rs IHls IHrs
      |intros k es IH|intros k es IH|intros k es m IH|intros i xs p|intros i xs o
      |intros es IH|intros b es IH|intros es IH]; intros Hw Hr.
    - reflexivity.
    - simpl. destruct (String.eqb x v); reflexivity.
    - reflexivity.
    - (* Bin *)
      simpl in Hw. apply andb_true_iff in Hw. destruct Hw as [Hw1 Hw2].
      destruct Hr as [Hr1 [Hr2 Hr3]].
      specialize (IHl Hw1 Hr1). specialize (IHr Hw2 Hr2).
      pose proof (subst_eval_reg l Hr1) as El. pose proof (subst_eval_reg r Hr2) as Er.
      change (g (Bin o l r)) with (binary_grad o l r (g l) (g r)).
      change (g (sb (Bin o l r))) with (binary_grad o (sb l) (sb r) (g (sb l)) (g (sb r))).
      destruct o; try (apply binary_grad_congr; [discriminate|assumption..]).
      destruct (pow_exponent_cases pq r) as [[q ->]|[[p ->]|[Hc Hc']]].
      + (* literal exponent *)
        simpl in Hr3. simpl subst.
        rewrite (binary_grad_pow_const_ev rho penv l q _ _ Hr3).
        rewrite El in Hr3.
        rewrite (binary_grad_pow_const_ev rho penv' (sb l) q _ _ Hr3).
        rewrite El, IHl. reflexivity.
      + (* parameter exponent *)
        simpl in Hr3. simpl subst.
        rewrite (binary_grad_pow_gen_ev rho penv l (Param p) _ _ eq_refl).
        assert (Hreg' : powQ_reg (ev' (sb l)) (pq p)) by (apply powQ_reg_pos; rewrite <- El; exact Hr3).
        rewrite (binary_grad_pow_const_ev rho penv' (sb l) (pq p) _ _ Hreg').
        rewrite <- El, <- IHl.
        change (ev (g (Param p))) with (Q2R 0). rewrite Q2R_0'.
        change (ev (Param p)) with (Q2R (pq p)). apply pow_param_identity, Hr3.
      + (* any other exponent *)
        rewrite (binary_grad_pow_gen_ev rho penv l r _ _ Hc).
        rewrite (binary_grad_pow_gen_ev rho penv' (sb l) (sb r) _ _ Hc').
        rewrite El, Er, IHl, IHr. reflexivity.
    - (* Un *)
      destruct Hr as [Hr1 Hr2]. simpl in Hw.
      change (g (Un o a)) with (unary_grad ln2c ln10c o a (g a)).
      change (g (sb (Un o a))) with (unary_grad ln2c ln10c o (sb a) (g (sb a))).
      apply unary_grad_congr; [apply subst_eval_reg, Hr1|apply IHa; assumption].
    - (* VSum *)
      simpl. destruct (mem_name v xs); reflexivity.
    - (* LinComb *)
      simpl in Hw, Hr. split_andb. apply fold_and_Forall in Hr.
      destruct k as [i0|]; simpl.
      + rewrite first_coeff_subst. destruct (first_coeff_is_const cs es) as [c ->]. reflexivity.
      + rewrite !lincomb_grad_ev, (map_g_congr es (Forall_GOK es IH H0 Hr)). reflexivity.
    - (* Dot *)
      simpl in Hw, Hr. split_andb. destruct Hr as [Hr1 Hr2].
      apply fold_and_Forall in Hr1. apply fold_and_Forall in Hr2.
      assert (Hgen : ev (dot_gen_grad ls rs (map g ls) (map g rs) c0) =
                     ev' (dot_gen_grad (map sb ls) (map sb rs) (map g (map sb ls))
                                       (map g (map sb rs)) c0)).
      { rewrite !dot_gen_grad_ev. f_equal. apply dot2R_congr.
        - apply Forall_and; [apply subst_eval_reg_list, Hr1|exact (Forall_GOK ls IHls H1 Hr1)].
        - apply Forall_and; [apply subst_eval_reg_list, Hr2|exact (Forall_GOK rs IHrs H0 Hr2)]. }
      destruct kl as [i0|]; [|exact Hgen]. destruct kr as [j0|]; [|exact Hgen].
      destruct (kind_wf_KVar i0 ls H3) as [xs [-> Hxs]].
      destruct (kind_wf_KVar j0 rs H2) as [ys [-> Hys]].
      simpl. rewrite !map_sb_Var. destruct (N.eqb i0 j0).
      * destruct (mem_name v (vec_names (map Var xs))); [|reflexivity].
        rewrite !s_mul_ev. reflexivity.
      * rewrite (dot_vv_grad_ev ln2c ln10c v rho penv), (dot_vv_grad_ev ln2c ln10c v rho penv').
        f_equal. rewrite <- (map_sb_Var xs) at 2. rewrite <- (map_sb_Var ys) at 2.
        apply dot2R_congr.
        -- apply Forall_and; [apply subst_eval_reg_list, Hr1|exact (Forall_GOK _ IHls H1 Hr1)].
        -- apply Forall_and; [apply subst_eval_reg_list, Hr2|exact (Forall_GOK _ IHrs H0 Hr2)].
    - (* L2n *)
      pose proof (subst_eval_reg (L2n k es) Hr) as Enode.
      simpl in Hw, Hr. split_andb. destruct Hr as [Hr1 Hr2]. apply fold_and_Forall in Hr1.
      change (sb (L2n k es)) with (L2n k (map sb es)) in *.
      destruct k as [i0|]; simpl g.
      + rewrite vec_names_subst. destruct (mem_name v (vec_names es)); [|reflexivity].
        rewrite !s_div_ev, Enode. reflexivity.
      + rewrite !norm2_grad_ev, (map_g_congr es (Forall_GOK es IH H0 Hr1)), Enode.
        f_equal. f_equal. rewrite map_map. apply map_ext_Forall'.
        eapply Forall_impl; [|exact (subst_eval_reg_list es Hr1)].
        intros a Ha. simpl. rewrite Ha. reflexivity.
    - (* L1n *)
      simpl in Hw, Hr. split_andb.
      apply (fold_and_Forall (fun e => regular rho penv e /\ ev e <> 0)) in Hr.
      assert (Hr1 : Forall (regular rho penv) es).
      { eapply Forall_impl; [|exact Hr]. intros a [Ha _]. exact Ha. }
      destruct k as [i0|]; simpl.
      + rewrite vec_names_subst. destruct (mem_name v (vec_names es)); [|reflexivity].
        rewrite !s_div_ev. reflexivity.
      + rewrite !norm1_grad_ev, (map_g_congr es (Forall_GOK es IH H0 Hr1)).
        f_equal. f_equal. rewrite map_map. apply map_ext_Forall'.
        eapply Forall_impl; [|exact (subst_eval_reg_list es Hr1)].
        intros a Ha. simpl. rewrite Ha. reflexivity.
    - (* QForm *)
      simpl in Hw, Hr. split_andb. apply fold_and_Forall in Hr.
      pose proof (map_map_Forall ev sb ev' es (subst_eval_reg_list es Hr)) as Hmap.
      destruct k as [i0|]; simpl g.
      + rewrite index_of_subst. destruct (index_of v es 0) as [i1|]; [|reflexivity].
        rewrite map_length. simpl. rewrite Hmap. reflexivity.
      + rewrite !qform_grad_ev, (map_g_congr es (Forall_GOK es IH H2 Hr)), !map_length.
        f_equal. f_equal. apply map_ext. intros j.
        rewrite !qf_row_ev, map_length, Hmap. reflexivity.
    - (* VPowSum *)
      simpl. destruct (mem_name v xs); [|reflexivity]. rewrite !vpow_deriv_ev. reflexivity.
    - (* VUnSum *)
      simpl. destruct (mem_name v xs); [|reflexivity]. destruct o; reflexivity.
    - (* VExprSum *)
      simpl in Hw, Hr. apply fold_and_Forall in Hr. simpl.
      rewrite !sum_grad_ev, (map_g_congr es (Forall_GOK es IH Hw Hr)). reflexivity.
    - (* MSum *)
      simpl in Hw, Hr. split_andb. apply fold_and_Forall in Hr. simpl.
      rewrite !sum_grad_ev, (map_g_congr es (Forall_GOK es IH H0 Hr)). reflexivity.
    - (* Frob *)
      pose proof (subst_eval_reg (Frob es) Hr) as Enode.
      simpl in Hw, Hr. split_andb. destruct Hr as [Hr1 Hr2]. apply fold_and_Forall in Hr1.
      change (sb (Frob es)) with (Frob (map sb es)) in *. simpl g.
      rewrite !norm2_grad_ev, (map_g_congr es (Forall_GOK es IH H0 Hr1)), Enode.
      f_equal. f_equal. rewrite map_map. apply map_ext_Forall'.
      eapply Forall_impl; [|exact (subst_eval_reg_list es Hr1)].
      intros a Ha. simpl. rewrite Ha. reflexivity.
  Qed.
End GradSubst.

Theorem grad_subst_eval : forall ln2c ln10c pq v e rho penv',
  wf e = true -> regular rho (fun p => Q2R (pq p)) e ->
  evalR rho (fun p => Q2R (pq p)) (grad ln2c ln10c v e) =
  evalR rho penv' (grad ln2c ln10c v (subst pq e)).
Proof.
  intros ln2c ln10c pq v e rho penv' Hw Hr.
  exact (grad_subst_eval_aux ln2c ln10c v pq rho penv' e Hw Hr).
Qed.

Corollary gradient_after_updates : forall ln2c ln10c pq0 sets v e rho penv',
  wf e = true -> regular rho (fun p => Q2R (after_sets pq0 sets p)) e ->
  evalR rho (fun p => Q2R (after_sets pq0 sets p)) (grad ln2c ln10c v e) =
  evalR rho penv' (grad ln2c ln10c v (subst (after_sets pq0 sets) e)).
Proof. intros. now apply grad_subst_eval. Qed.

(* ------------------------------------------------------------------ *)
(** * Non-vacuity *)

Open Scope string_scope.
Definition ex_e : expr :=
  Bin Add (Bin Mul (Param "p") (Var "x")) (Bin Pow (Var "x") (Param "k")).
Definition ex_pq : string -> Q :=
  fun s => if String.eqb s "p" then 3%Q else if String.eqb s "k" then 2%Q else 0%Q.

Example ex_subst :
  subst ex_pq ex_e =
  Bin Add (Bin Mul (Const 3%Q) (Var "x")) (Bin Pow (Var "x") (Const 2%Q)).
Proof. reflexivity. Qed.

Example ex_flags :
  has_param ex_e = true /\ has_param (subst ex_pq ex_e) = false /\ wf ex_e = true /\
  degree ex_e = None /\ degree (subst ex_pq ex_e) = Some 2%nat.
Proof. vm_compute. repeat split. Qed.

(* the hypotheses of the theorems are satisfiable: x = 5 is a regular point *)
Example ex_regular :
  regular (fun _ => 5) (fun p => Q2R (ex_pq p)) ex_e /\
  dom (fun _ => 5) (fun p => Q2R (ex_pq p)) ex_e.
Proof. simpl. repeat split; lra. Qed.

(* the parametric model at p = 3, k = 2, x = 5 evaluates like 3*x + x^2 = 40 *)
Example ex_value : forall penv',
  evalR (fun _ => 5) (fun p => Q2R (ex_pq p)) ex_e = 40 /\
  evalR (fun _ => 5) penv' (subst ex_pq ex_e) = 40.
Proof.
  intros penv'.
  assert (H2 : evalR (fun _ => 5) penv' (subst ex_pq ex_e) = 40).
  { simpl. unfold powQ. simpl. unfold Q2R. simpl. lra. }
  split; [|exact H2].
  rewrite (subst_eval ex_pq ex_e (fun _ => 5) penv'); [exact H2|].
  apply ex_regular.
Qed.

(* history: p set to 1, then k to 2, then p to 3 gives the valuation above *)
Example ex_history :
  let pq := after_sets (fun _ => 0%Q) [("p", 1%Q); ("k", 2%Q); ("p", 3%Q)] in
  pq "p" = 3%Q /\ pq "k" = 2%Q /\ subst pq ex_e = subst ex_pq ex_e.
Proof. vm_compute. repeat split. Qed.
Close Scope string_scope.

Print Assumptions subst_eval.
Print Assumptions has_param_degree.
Print Assumptions subst_no_param.
Print Assumptions subst_id.
Print Assumptions grad_subst_eval.
Print Assumptions after_sets_last.
Print Assumptions after_sets_other.
Print Assumptions observation_after_updates.
