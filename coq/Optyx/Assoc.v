(* Assoc.v — the tree shapes a user obtains by accumulating terms one by one:
   left-deep (obj = obj op t), right-deep (obj = t op obj) and balanced.
   The specification is that the MEANING does not depend on the shape. *)
From Coq Require Import List Arith QArith.
Close Scope Q_scope.
From Optyx Require Import Syntax.
Import ListNotations.

Definition chain_l (o : bop) (ts : list expr) : expr :=
  match ts with [] => Const 0%Q | t :: r => fold_left (fun acc x => Bin o acc x) r t end.

Fixpoint chain_r (o : bop) (ts : list expr) : expr :=
  match ts with [] => Const 0%Q | [t] => t | t :: r => Bin o t (chain_r o r) end.

Fixpoint chain_bal_fuel (fuel : nat) (o : bop) (ts : list expr) : expr :=
  match fuel with
  | O => Const 0%Q
  | S f => match ts with
           | [] => Const 0%Q
           | [t] => t
           | _ => let m := Nat.div (List.length ts) 2 in
                  Bin o (chain_bal_fuel f o (firstn m ts)) (chain_bal_fuel f o (skipn m ts))
           end
  end.
Definition chain_bal (o : bop) (ts : list expr) : expr := chain_bal_fuel (S (List.length ts)) o ts.
