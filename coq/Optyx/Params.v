(* Params.v — parameters (core/parameters.py Parameter): updatable constants that
   every evaluator reads at CALL time.  The specification of "honouring an update"
   is substitution: after p.set(q), every observation must equal the one on a
   freshly built model in which each Parameter is replaced by Constant(current value).
   No proofs here (see ParamProofs.v). *)
From Coq Require Import String List Bool QArith.
From Optyx Require Import Syntax.
Import ListNotations.
Close Scope Q_scope.

(* the fresh model: every Param p replaced by Const (pq p) *)
Fixpoint subst (pq : string -> Q) (e : expr) {struct e} : expr :=
  match e with
  | Param p => Const (pq p)
  | Const _ | Var _ | VSum _ _ | VPowSum _ _ _ | VUnSum _ _ _ => e
  | Bin o l r => Bin o (subst pq l) (subst pq r)
  | Un o a => Un o (subst pq a)
  | LinComb cs k es => LinComb cs k (map (subst pq) es)
  | Dot kl ls kr rs => Dot kl (map (subst pq) ls) kr (map (subst pq) rs)
  | L2n k es => L2n k (map (subst pq) es)
  | L1n k es => L1n k (map (subst pq) es)
  | QForm k es m => QForm k (map (subst pq) es) m
  | VExprSum es => VExprSum (map (subst pq) es)
  | MSum b es => MSum b (map (subst pq) es)
  | Frob es => Frob (map (subst pq) es)
  end.

Fixpoint has_param (e : expr) {struct e} : bool :=
  match e with
  | Param _ => true
  | Const _ | Var _ | VSum _ _ | VPowSum _ _ _ | VUnSum _ _ _ => false
  | Bin _ l r => has_param l || has_param r
  | Un _ a => has_param a
  | LinComb _ _ es | L2n _ es | L1n _ es | QForm _ es _ | VExprSum es | MSum _ es | Frob es => existsb has_param es
  | Dot _ ls _ rs => existsb has_param ls || existsb has_param rs
  end.

(* a history of parameter updates: the valuation in force after the updates *)
Definition pupdate (pq : string -> Q) (p : string) (q : Q) : string -> Q :=
  fun x => if String.eqb x p then q else pq x.
Definition after_sets (pq0 : string -> Q) (sets : list (string * Q)) : string -> Q :=
  fold_left (fun pq s => pupdate pq (fst s) (snd s)) sets pq0.
