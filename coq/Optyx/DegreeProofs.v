(* DegreeProofs.v — soundness of the degree / linearity classification of
   Degree.v with respect to the real semantics of SemR.v and the specification
   of Poly.v: the analysis never under-reports the degree.  Also: the three
   entry points (recursive, explicit-stack, depth-switched) agree. *)
From Coq Require Import Reals QArith Qreals String List Bool ZArith Arith Lia Lra.
From Optyx Require Import Syntax SemR Machine Degree Poly ExprInd MachineProofs.
Import ListNotations.
Close Scope Q_scope.
Open Scope R_scope.

(* ------------------------------------------------------------------ *)
(** * Part b: low-degree polynomials are constant / affine             *)
(* ------------------------------------------------------------------ *)

Lemma poly_low : forall d f,
    is_poly d f ->
    ((d <= 1)%nat -> affine f) /\ (d = 0%nat -> constant_fn f).
Proof.
  intros d f H.
  induction H as [ c | x
                 | d1 d2 f g Hf [IHf1 IHf0] Hg [IHg1 IHg0]
                 | d1 d2 f g Hf [IHf1 IHf0] Hg [IHg1 IHg0]
                 | d f g Hf [IHf1 IHf0] Hext
                 | d d' f Hf [IHf1 IHf0] Hle ].
  - (* const *)
    split; intros _.
    + intros r1 r2 t. ring.
    + intros r1 r2. reflexivity.
  - (* var *)
    split.
    + intros _ r1 r2 t. unfold mix. reflexivity.
    + intros Hd. discriminate Hd.
  - (* add *)
    split.
    + intros Hd r1 r2 t.
      rewrite (IHf1 ltac:(lia) r1 r2 t), (IHg1 ltac:(lia) r1 r2 t). ring.
    + intros Hd r1 r2.
      rewrite (IHf0 ltac:(lia) r1 r2), (IHg0 ltac:(lia) r1 r2). reflexivity.
  - (* mul *)
    split.
    + intros Hd r1 r2 t.
      destruct d1 as [|d1'].
      * pose proof (IHf0 eq_refl) as Hc.
        rewrite (IHg1 ltac:(lia) r1 r2 t).
        rewrite (Hc (mix t r1 r2) r1), (Hc r2 r1). ring.
      * assert (Hd2 : d2 = 0%nat) by lia.
        pose proof (IHg0 Hd2) as Hc.
        rewrite (IHf1 ltac:(lia) r1 r2 t).
        rewrite (Hc (mix t r1 r2) r1), (Hc r2 r1). ring.
    + intros Hd r1 r2.
      rewrite (IHf0 ltac:(lia) r1 r2), (IHg0 ltac:(lia) r1 r2). reflexivity.
  - (* ext *)
    split.
    + intros Hd r1 r2 t. rewrite <- !Hext. apply IHf1. exact Hd.
    + intros Hd r1 r2. rewrite <- !Hext. apply IHf0. exact Hd.
  - (* weakening *)
    split.
    + intros Hd. apply IHf1. lia.
    + intros Hd. apply IHf0. lia.
Qed.

Theorem poly0_constant : forall f, is_poly 0 f -> constant_fn f.
Proof. intros f H. apply (proj2 (poly_low 0 f H)). reflexivity. Qed.

Theorem poly1_affine : forall f, is_poly 1 f -> affine f.
Proof. intros f H. apply (proj1 (poly_low 1 f H)). apply le_n. Qed.

(* ------------------------------------------------------------------ *)
(** * Closure properties of [is_poly]                                  *)
(* ------------------------------------------------------------------ *)

Lemma poly_scale : forall c d f,
    is_poly d f -> is_poly d (fun rho => c * f rho).
Proof.
  intros c d f Hf.
  exact (P_mul 0 d (fun _ => c) f (P_const c) Hf).
Qed.

Lemma poly_zero : forall d, is_poly d (fun _ => 0).
Proof. intros d. apply P_le with (d := 0%nat). apply P_const. lia. Qed.

Lemma poly_pow : forall d f n,
    is_poly d f -> is_poly (d * n) (fun rho => f rho ^ n).
Proof.
  intros d f n Hf. induction n as [|n IHn].
  - apply P_le with (d := 0%nat); [ | lia ].
    exact (P_const 1).
  - apply P_le with (d := (d + d * n)%nat); [ | lia ].
    exact (P_mul d (d * n) f (fun rho => f rho ^ n) Hf IHn).
Qed.

Lemma poly_sumR : forall (T : Type) (ev : env -> T -> R) d l,
    Forall (fun x => is_poly d (fun rho => ev rho x)) l ->
    is_poly d (fun rho => sumR (map (ev rho) l)).
Proof.
  intros T ev d l Hl. induction Hl as [| x l Hx Hl IH].
  - exact (poly_zero d).
  - apply P_le with (d := Nat.max d d); [ | lia ].
    exact (P_add d d (fun rho => ev rho x) (fun rho => sumR (map (ev rho) l)) Hx IH).
Qed.

Lemma poly_dotR : forall (T U : Type) (ev1 : env -> T -> R) (ev2 : env -> U -> R) a b ls rs,
    Forall (fun x => is_poly a (fun rho => ev1 rho x)) ls ->
    Forall (fun y => is_poly b (fun rho => ev2 rho y)) rs ->
    is_poly (a + b) (fun rho => dotR (map (ev1 rho) ls) (map (ev2 rho) rs)).
Proof.
  intros T U ev1 ev2 a b ls rs Hl. revert rs.
  induction Hl as [| x ls Hx Hl IH]; intros rs Hr.
  - exact (poly_zero (a + b)).
  - destruct Hr as [| y rs Hy Hr].
    + exact (poly_zero (a + b)).
    + apply P_le with (d := Nat.max (a + b) (a + b)); [ | lia ].
      exact (P_add (a + b) (a + b)
                   (fun rho => ev1 rho x * ev2 rho y)
                   (fun rho => dotR (map (ev1 rho) ls) (map (ev2 rho) rs))
                   (P_mul a b _ _ Hx Hy) (IH rs Hr)).
Qed.

(* a literal natural exponent: powQ is the ordinary natural power *)
Lemma powQ_natural : forall a q n, natural_power q = Some n -> powQ a q = a ^ n.
Proof.
  intros a q n Hn. unfold natural_power in Hn. unfold powQ.
  destruct (Qis_int q) eqn:Hi; simpl in Hn; [ | discriminate Hn ].
  destruct (Qfloor' q) as [| p | p] eqn:Hz; simpl in Hn.
  - injection Hn as <-. reflexivity.
  - injection Hn as <-. reflexivity.
  - discriminate Hn.
Qed.

(* ------------------------------------------------------------------ *)
(** * Part a: soundness of [degree]                                    *)
(* ------------------------------------------------------------------ *)

Lemma Some_inj : forall (a b : nat), Some a = Some b -> a = b.
Proof. intros a b H. congruence. Qed.

Lemma degree_LinComb : forall cs k es,
    degree (LinComb cs k es) = vec_degree degree k es.
Proof. intros cs k es. destruct k; reflexivity. Qed.

Lemma degree_Dot : forall kl ls kr rs,
    degree (Dot kl ls kr rs) =
    match vec_degree degree kl ls, vec_degree degree kr rs with
    | Some a, Some b => Some (Nat.max 2 (a + b))
    | _, _ => None
    end.
Proof. intros kl ls kr rs. destruct kl, kr; reflexivity. Qed.

Lemma degree_QForm : forall k es m,
    degree (QForm k es m) =
    match vec_degree degree k es with
    | Some d => Some (Nat.max 2 (2 * d))
    | None => None
    end.
Proof. intros k es m. destruct k; reflexivity. Qed.

Lemma vecdeg_Forall : forall es d,
    fold_right (fun e acc => omax (degree e) acc) (Some 0%nat) es = Some d ->
    Forall (fun e => exists d', degree e = Some d' /\ (d' <= d)%nat) es.
Proof.
  induction es as [| e es IH]; intros d Hd.
  - constructor.
  - simpl in Hd.
    destruct (fold_right (fun e acc => omax (degree e) acc) (Some 0%nat) es)
      as [dr|] eqn:Hr;
      destruct (degree e) as [de|] eqn:He; simpl in Hd; try discriminate Hd.
    injection Hd as <-.
    constructor.
    + exists de. split; [ exact He | lia ].
    + apply Forall_impl with (2 := IH dr eq_refl).
      intros e' (d' & Hd' & Hle). exists d'. split; [ exact Hd' | lia ].
Qed.

Definition Psound (e : expr) : Prop :=
  forall d, wf e = true -> degree e = Some d ->
            forall penv, is_poly d (fun rho => evalR rho penv e).

Lemma vec_sound : forall penv k es d,
    Forall Psound es ->
    kind_wf k es = true ->
    forallb wf es = true ->
    vec_degree degree k es = Some d ->
    Forall (fun e => is_poly d (fun rho => evalR rho penv e)) es.
Proof.
  intros penv k es d HP Hk Hwf Hd.
  rewrite Forall_forall in HP. rewrite forallb_forall in Hwf.
  apply Forall_forall. intros e Hin.
  destruct k as [vid|].
  - (* VectorVariable: the elements are Var nodes *)
    simpl in Hd. injection Hd as <-.
    simpl in Hk. apply andb_prop in Hk. destruct Hk as [Hv _].
    rewrite forallb_forall in Hv. specialize (Hv e Hin).
    destruct e; try discriminate Hv.
    exact (P_var x).
  - simpl in Hd. apply vecdeg_Forall in Hd. rewrite Forall_forall in Hd.
    destruct (Hd e Hin) as (d' & Hd' & Hle).
    apply P_le with (d := d'); [ | exact Hle ].
    apply (HP e Hin d' (Hwf e Hin) Hd').
Qed.

Lemma degree_sound_aux : forall e, Psound e.
Proof.
  induction e as [ q | x | p | o l r IHl IHr | o a IHa | vid xs
                 | cs k es IHes | kl ls kr rs IHls IHrs | k es IHes | k es IHes
                 | k es m IHes | vid xs p | vid xs o | es IHes | isvar es IHes
                 | es IHes ] using expr_ind';
    intros d Hwf Hdeg penv.
  - (* Const *)
    simpl in Hdeg. injection Hdeg as <-. exact (P_const (Q2R q)).
  - (* Var *)
    simpl in Hdeg. injection Hdeg as <-. exact (P_var x).
  - (* Param *)
    discriminate Hdeg.
  - (* Bin *)
    simpl in Hwf. apply andb_prop in Hwf. destruct Hwf as [Hwl Hwr].
    destruct o; simpl in Hdeg.
    + (* Add *)
      unfold deg_addsub, omax in Hdeg.
      destruct (degree l) as [dl|] eqn:Hdl; [ | discriminate Hdeg ].
      destruct (degree r) as [dr|] eqn:Hdr; [ | discriminate Hdeg ].
      injection Hdeg as <-.
      exact (P_add dl dr _ _ (IHl dl Hwl Hdl penv) (IHr dr Hwr Hdr penv)).
    + (* Sub *)
      unfold deg_addsub, omax in Hdeg.
      destruct (degree l) as [dl|] eqn:Hdl; [ | discriminate Hdeg ].
      destruct (degree r) as [dr|] eqn:Hdr; [ | discriminate Hdeg ].
      injection Hdeg as <-.
      apply P_ext with
          (f := fun rho => evalR rho penv l + (-1) * evalR rho penv r).
      * exact (P_add dl dr _ _ (IHl dl Hwl Hdl penv)
                     (poly_scale (-1) dr _ (IHr dr Hwr Hdr penv))).
      * intros rho. simpl. ring.
    + (* Mul *)
      unfold deg_mul in Hdeg.
      destruct (degree l) as [dl|] eqn:Hdl; [ | discriminate Hdeg ].
      destruct (degree r) as [dr|] eqn:Hdr; [ | discriminate Hdeg ].
      destruct ((0 <? dl)%nat && (0 <? dr)%nat); [ discriminate Hdeg | ].
      injection Hdeg as <-.
      exact (P_mul dl dr _ _ (IHl dl Hwl Hdl penv) (IHr dr Hwr Hdr penv)).
    + (* Div by a literal constant *)
      unfold deg_div in Hdeg.
      destruct r as [ q | | | | | | | | | | | | | | | ]; try discriminate Hdeg.
      apply P_ext with (f := fun rho => / Q2R q * evalR rho penv l).
      * apply poly_scale. exact (IHl d Hwl Hdeg penv).
      * intros rho. simpl. unfold Rdiv. ring.
    + (* Pow with a literal natural exponent *)
      unfold deg_pow in Hdeg.
      destruct r as [ q | | | | | | | | | | | | | | | ]; try discriminate Hdeg.
      destruct (natural_power q) as [n|] eqn:Hn; [ | discriminate Hdeg ].
      destruct (degree l) as [dl|] eqn:Hdl; [ | discriminate Hdeg ].
      injection Hdeg as <-.
      apply P_ext with (f := fun rho => evalR rho penv l ^ n).
      * apply poly_pow. exact (IHl dl Hwl Hdl penv).
      * intros rho. simpl. rewrite (powQ_natural _ q n Hn). reflexivity.
  - (* Un *)
    simpl in Hwf.
    destruct o; simpl in Hdeg; try discriminate Hdeg.
    apply P_ext with (f := fun rho => (-1) * evalR rho penv a).
    + apply poly_scale. exact (IHa d Hwf Hdeg penv).
    + intros rho. simpl. ring.
  - (* VSum *)
    simpl in Hdeg. injection Hdeg as <-.
    apply P_ext with (f := fun rho => sumR (map ((fun rho' x => rho' x) rho) xs)).
    + apply poly_sumR. apply Forall_forall. intros x _. exact (P_var x).
    + intros rho. reflexivity.
  - (* LinComb *)
    rewrite degree_LinComb in Hdeg.
    simpl in Hwf. apply andb_prop in Hwf. destruct Hwf as [Hwf Hwes].
    apply andb_prop in Hwf. destruct Hwf as [_ Hk].
    pose proof (vec_sound penv k es d IHes Hk Hwes Hdeg) as Hes.
    apply P_ext with
        (f := fun rho => dotR (map ((fun _ c => Q2R c) rho) cs)
                              (map ((fun rho' e => evalR rho' penv e) rho) es)).
    + apply (poly_dotR Q expr (fun _ c => Q2R c) (fun rho' e => evalR rho' penv e)
                       0%nat d cs es).
      * apply Forall_forall. intros c _. exact (P_const (Q2R c)).
      * exact Hes.
    + intros rho. reflexivity.
  - (* Dot *)
    rewrite degree_Dot in Hdeg.
    simpl in Hwf.
    apply andb_prop in Hwf. destruct Hwf as [Hwf Hwrs].
    apply andb_prop in Hwf. destruct Hwf as [Hwf Hwls].
    apply andb_prop in Hwf. destruct Hwf as [Hwf Hkr].
    apply andb_prop in Hwf. destruct Hwf as [_ Hkl].
    destruct (vec_degree degree kl ls) as [da|] eqn:Ha; [ | discriminate Hdeg ].
    destruct (vec_degree degree kr rs) as [db|] eqn:Hb; [ | discriminate Hdeg ].
    apply Some_inj in Hdeg. subst d.
    pose proof (vec_sound penv kl ls da IHls Hkl Hwls Ha) as Hls.
    pose proof (vec_sound penv kr rs db IHrs Hkr Hwrs Hb) as Hrs.
    apply P_le with (d := (da + db)%nat); [ | lia ].
    apply P_ext with
        (f := fun rho => dotR (map ((fun rho' e => evalR rho' penv e) rho) ls)
                              (map ((fun rho' e => evalR rho' penv e) rho) rs)).
    + apply (poly_dotR expr expr (fun rho' e => evalR rho' penv e)
                       (fun rho' e => evalR rho' penv e) da db ls rs Hls Hrs).
    + intros rho. reflexivity.
  - (* L2n *)
    discriminate Hdeg.
  - (* L1n *)
    discriminate Hdeg.
  - (* QForm *)
    rewrite degree_QForm in Hdeg.
    simpl in Hwf.
    apply andb_prop in Hwf. destruct Hwf as [Hwf _].
    apply andb_prop in Hwf. destruct Hwf as [Hwf _].
    apply andb_prop in Hwf. destruct Hwf as [Hk Hwes].
    destruct (vec_degree degree k es) as [d0|] eqn:Hd0; [ | discriminate Hdeg ].
    apply Some_inj in Hdeg. subst d.
    pose proof (vec_sound penv k es d0 IHes Hk Hwes Hd0) as Hes.
    apply P_le with (d := (d0 + d0)%nat); [ | lia ].
    apply P_ext with
        (f := fun rho =>
                dotR (map ((fun rho' e => evalR rho' penv e) rho) es)
                     (map ((fun rho' row =>
                              matvec_row row (map (evalR rho' penv) es)) rho) m)).
    + apply (poly_dotR expr (list Q) (fun rho' e => evalR rho' penv e)
                       (fun rho' row => matvec_row row (map (evalR rho' penv) es))
                       d0 d0 es m Hes).
      apply Forall_forall. intros row _. unfold matvec_row.
      apply P_ext with
          (f := fun rho => dotR (map ((fun _ c => Q2R c) rho) row)
                                (map ((fun rho' e => evalR rho' penv e) rho) es)).
      * apply (poly_dotR Q expr (fun _ c => Q2R c) (fun rho' e => evalR rho' penv e)
                         0%nat d0 row es).
        -- apply Forall_forall. intros c _. exact (P_const (Q2R c)).
        -- exact Hes.
      * intros rho. reflexivity.
    + intros rho. reflexivity.
  - (* VPowSum *)
    simpl in Hdeg.
    apply P_ext with
        (f := fun rho => sumR (map ((fun rho' x => powQ (rho' x) p) rho) xs)).
    + apply poly_sumR. apply Forall_forall. intros x _.
      apply P_ext with (f := fun rho => rho x ^ d).
      * apply P_le with (d := (1 * d)%nat); [ | lia ].
        apply poly_pow. exact (P_var x).
      * intros rho. rewrite (powQ_natural _ p d Hdeg). reflexivity.
    + intros rho. reflexivity.
  - (* VUnSum *)
    discriminate Hdeg.
  - (* VExprSum *)
    discriminate Hdeg.
  - (* MSum *)
    discriminate Hdeg.
  - (* Frob *)
    discriminate Hdeg.
Qed.

Theorem degree_sound : forall e d,
    wf e = true -> degree e = Some d ->
    forall penv, is_poly d (fun rho => evalR rho penv e).
Proof. intros e d Hwf Hd penv. exact (degree_sound_aux e d Hwf Hd penv). Qed.

(* ------------------------------------------------------------------ *)
(** * Part c: the boolean classifiers                                  *)
(* ------------------------------------------------------------------ *)

Theorem is_linear_sound : forall e,
    wf e = true -> is_linear e = true ->
    forall penv, affine (fun rho => evalR rho penv e).
Proof.
  intros e Hwf Hlin penv. unfold is_linear in Hlin.
  destruct (degree e) as [d|] eqn:Hd; [ | discriminate Hlin ].
  apply Nat.leb_le in Hlin.
  apply poly1_affine.
  apply P_le with (d := d); [ | exact Hlin ].
  exact (degree_sound e d Hwf Hd penv).
Qed.

Theorem is_quadratic_sound : forall e,
    wf e = true -> is_quadratic e = true ->
    forall penv, is_poly 2 (fun rho => evalR rho penv e).
Proof.
  intros e Hwf Hq penv. unfold is_quadratic in Hq.
  destruct (degree e) as [d|] eqn:Hd; [ | discriminate Hq ].
  apply Nat.leb_le in Hq.
  apply P_le with (d := d); [ | exact Hq ].
  exact (degree_sound e d Hwf Hd penv).
Qed.

(* degree 0 reported => the expression denotes a constant function *)
Corollary degree0_constant : forall e,
    wf e = true -> degree e = Some 0%nat ->
    forall penv, constant_fn (fun rho => evalR rho penv e).
Proof.
  intros e Hwf Hd penv. apply poly0_constant. exact (degree_sound e 0%nat Hwf Hd penv).
Qed.

(* ------------------------------------------------------------------ *)
(** * Part d: all entry points agree                                   *)
(* ------------------------------------------------------------------ *)

Lemma fold_rec_degree : forall e,
    fold_rec (option nat) degree deg_bin deg_un e = degree e.
Proof.
  induction e as [ q | x | p | o l IHl r IHr | o a IHa | vid xs | cs k es
                 | kl dls kr drs | k es | k es | k es m | vid xs p | vid xs o
                 | es | isvar es | es ]; try reflexivity.
  - simpl. rewrite IHl, IHr. reflexivity.
  - simpl. rewrite IHa. reflexivity.
Qed.

Theorem degree_iter_eq : forall e, degree_iter e = Some (degree e).
Proof.
  intros e. unfold degree_iter. rewrite fold_iter_correct.
  rewrite fold_rec_degree. reflexivity.
Qed.

Theorem compute_degree_eq : forall th e, compute_degree th e = degree e.
Proof.
  intros th e. unfold compute_degree. rewrite degree_iter_eq.
  destruct (th <=? depth_full e)%nat; reflexivity.
Qed.

(* ------------------------------------------------------------------ *)
(** * Part e: non-vacuity                                              *)
(* ------------------------------------------------------------------ *)

Example degree_example :
  degree (Bin Add (Bin Mul (Const 2) (Var "x")) (VSum 1%N ["y"%string; "z"%string]))
  = Some 1%nat.
Proof. vm_compute. reflexivity. Qed.

Example degree_example_wf :
  wf (Bin Add (Bin Mul (Const 2) (Var "x")) (VSum 1%N ["y"%string; "z"%string])) = true.
Proof. vm_compute. reflexivity. Qed.

Example square_not_affine : ~ affine (fun rho => rho "x"%string * rho "x"%string).
Proof.
  intros H.
  specialize (H (fun _ => 1) (fun _ => 0) (/ 2)).
  unfold mix in H. lra.
Qed.

Example degree_refuses_square : degree (Bin Mul (Var "x") (Var "x")) = None.
Proof. vm_compute. reflexivity. Qed.

(* the analysis does accept genuine quadratics, and they are classified as
   quadratic but not linear *)
Example degree_accepts_pow2 :
  degree (Bin Pow (Var "x") (Const 2)) = Some 2%nat
  /\ is_quadratic (Bin Pow (Var "x") (Const 2)) = true
  /\ is_linear (Bin Pow (Var "x") (Const 2)) = false.
Proof. vm_compute. repeat split; reflexivity. Qed.

Print Assumptions degree_sound.
Print Assumptions poly0_constant.
Print Assumptions poly1_affine.
Print Assumptions is_linear_sound.
Print Assumptions is_quadratic_sound.
Print Assumptions degree_iter_eq.
Print Assumptions compute_degree_eq.
Print Assumptions square_not_affine.
