(* AutodiffLemmas.v — supporting lemmas for AutodiffProofs.v (property C02):
   a strong induction principle for [expr], extensionality of [evalR],
   arithmetic facts on [Qis_int]/[Qfloor']/[powQ], soundness of the simplifiers
   of Autodiff.v with respect to [evalR], list-sum calculus lemmas and the
   derivatives of the elementary functions of SemR.v. *)
(* Coquelicot first: its AutoDerive exports [expr], [Var], [Forall], ... which the
   later imports must shadow. *)
From Coquelicot Require Import Coquelicot.
From Coq Require Import Reals QArith Qreals String List Bool ZArith Lia Lra
     FunctionalExtensionality.
From Optyx Require Import Syntax SemR Autodiff.
Import ListNotations.
Close Scope Q_scope.
Open Scope R_scope.

(* ------------------------------------------------------------------ *)
(** * Strong induction principle (nested lists get [Forall] hypotheses) *)

Section ExprIndStrong.
  Variable P : expr -> Prop.
  Hypothesis HConst : forall q, P (Const q).
  Hypothesis HVar : forall x, P (Var x).
  Hypothesis HParam : forall p, P (Param p).
  Hypothesis HBin : forall o l r, P l -> P r -> P (Bin o l r).
  Hypothesis HUn : forall o a, P a -> P (Un o a).
  Hypothesis HVSum : forall i xs, P (VSum i xs).
  Hypothesis HLinComb : forall cs k es, Forall P es -> P (LinComb cs k es).
  Hypothesis HDot : forall kl ls kr rs, Forall P ls -> Forall P rs -> P (Dot kl ls kr rs).
  Hypothesis HL2n : forall k es, Forall P es -> P (L2n k es).
  Hypothesis HL1n : forall k es, Forall P es -> P (L1n k es).
  Hypothesis HQForm : forall k es m, Forall P es -> P (QForm k es m).
  Hypothesis HVPowSum : forall i xs p, P (VPowSum i xs p).
  Hypothesis HVUnSum : forall i xs o, P (VUnSum i xs o).
  Hypothesis HVExprSum : forall es, Forall P es -> P (VExprSum es).
  Hypothesis HMSum : forall b es, Forall P es -> P (MSum b es).
  Hypothesis HFrob : forall es, Forall P es -> P (Frob es).

  Fixpoint expr_ind_strong (e : expr) : P e :=
    let fix go (l : list expr) : Forall P l :=
      match l with
      | [] => Forall_nil P
      | x :: r => Forall_cons x (expr_ind_strong x) (go r)
      end in
    match e with
    | Const q => HConst q
    | Var x => HVar x
    | Param p => HParam p
    | Bin o l r => HBin o l r (expr_ind_strong l) (expr_ind_strong r)
    | Un o a => HUn o a (expr_ind_strong a)
    | VSum i xs => HVSum i xs
    | LinComb cs k es => HLinComb cs k es (go es)
    | Dot kl ls kr rs => HDot kl ls kr rs (go ls) (go rs)
    | L2n k es => HL2n k es (go es)
    | L1n k es => HL1n k es (go es)
    | QForm k es m => HQForm k es m (go es)
    | VPowSum i xs p => HVPowSum i xs p
    | VUnSum i xs o => HVUnSum i xs o
    | VExprSum es => HVExprSum es (go es)
    | MSum b es => HMSum b es (go es)
    | Frob es => HFrob es (go es)
    end.
End ExprIndStrong.

(* ------------------------------------------------------------------ *)
(** * Generic list facts *)

Lemma map_ext_Forall' {A B} (f g : A -> B) (l : list A) :
  Forall (fun a => f a = g a) l -> map f l = map g l.
Proof.
  induction 1 as [|a l Ha Hl IH]; simpl; [reflexivity|]. now rewrite Ha, IH.
Qed.

Lemma forallb_Forall {A} (p : A -> bool) (l : list A) :
  forallb p l = true <-> Forall (fun a => p a = true) l.
Proof.
  induction l as [|a l IH]; simpl.
  - split; intros; [constructor | reflexivity].
  - rewrite andb_true_iff, IH. split.
    + intros [H1 H2]; constructor; assumption.
    + intros H; inversion H; subst; split; assumption.
Qed.

Lemma Forall_and {A} (P Q : A -> Prop) (l : list A) :
  Forall P l -> Forall Q l -> Forall (fun a => P a /\ Q a) l.
Proof.
  induction 1 as [|a l Ha Hl IH]; intros HQ; inversion HQ; subst; constructor; auto.
Qed.

Lemma Forall_mp {A} (P Q : A -> Prop) (l : list A) :
  Forall (fun a => P a -> Q a) l -> Forall P l -> Forall Q l.
Proof.
  induction 1 as [|a l Ha Hl IH]; intros HP; inversion HP; subst; constructor; auto.
Qed.

Lemma fold_and_Forall {A} (P : A -> Prop) (l : list A) :
  fold_right (fun a Q => P a /\ Q) True l <-> Forall P l.
Proof.
  induction l as [|a l IH]; simpl.
  - split; intros; [constructor | exact I].
  - rewrite IH. split.
    + intros [H1 H2]; constructor; assumption.
    + intros H; inversion H; subst; split; assumption.
Qed.

(* ------------------------------------------------------------------ *)
(** * Extensionality of [evalR] in the variable environment *)

Lemma evalR_ext : forall penv e rho1 rho2,
  (forall x, rho1 x = rho2 x) -> evalR rho1 penv e = evalR rho2 penv e.
Proof.
  intros penv e rho1 rho2 Hrho.
  pattern e; apply expr_ind_strong; clear e;
    [intros q|intros x|intros p|intros o l r IHl IHr|intros o a IHa|intros i xs
    |intros cs k es IH|intros kl ls kr rs IHls IHrs
    |intros k es IH|intros k es IH|intros k es m IH|intros i xs p|intros i xs o
    |intros es IH|intros b es IH|intros es IH].
  - reflexivity.
  - simpl. apply Hrho.
  - reflexivity.
  - destruct o; simpl; rewrite IHl, IHr; reflexivity.
  - simpl. now rewrite IHa.
  - simpl. f_equal. apply map_ext. intros; apply Hrho.
  - simpl. f_equal. now apply map_ext_Forall'.
  - simpl. f_equal; now apply map_ext_Forall'.
  - simpl. do 2 f_equal. apply map_ext_Forall'.
    eapply Forall_impl; [|exact IH]. simpl. intros a Ha. now rewrite Ha.
  - simpl. f_equal. apply map_ext_Forall'.
    eapply Forall_impl; [|exact IH]. simpl. intros a Ha. now rewrite Ha.
  - simpl. rewrite (map_ext_Forall' _ _ _ IH). reflexivity.
  - simpl. f_equal. apply map_ext. intros y. now rewrite Hrho.
  - simpl. f_equal. apply map_ext. intros y. now rewrite Hrho.
  - simpl. f_equal. now apply map_ext_Forall'.
  - simpl. f_equal. now apply map_ext_Forall'.
  - simpl. do 2 f_equal. apply map_ext_Forall'.
    eapply Forall_impl; [|exact IH]. simpl. intros a Ha. now rewrite Ha.
Qed.

Lemma upd_same_pt (rho : env) v x : upd rho v (rho v) x = rho x.
Proof.
  unfold upd. destruct (String.eqb x v) eqn:E; [|reflexivity].
  apply String.eqb_eq in E. now subst.
Qed.

Lemma upd_same (rho : env) v : upd rho v (rho v) = rho.
Proof. apply functional_extensionality. intros x. apply upd_same_pt. Qed.

Lemma evalR_upd_same rho penv v e : evalR (upd rho v (rho v)) penv e = evalR rho penv e.
Proof. apply evalR_ext. intros x. apply upd_same_pt. Qed.

Lemma upd_other (rho : env) v y t : String.eqb y v = false -> upd rho v t y = rho y.
Proof. unfold upd. now intros ->. Qed.

Lemma upd_this (rho : env) v t : upd rho v t v = t.
Proof. unfold upd. now rewrite String.eqb_refl. Qed.

(* ------------------------------------------------------------------ *)
(** * Rational constants, [Qis_int], [Qfloor'], [powQ] *)

Lemma Q2R_0' : Q2R 0 = 0.
Proof. unfold Q2R; simpl; lra. Qed.
Lemma Q2R_1' : Q2R 1 = 1.
Proof. unfold Q2R; simpl; lra. Qed.
Lemma Q2R_2' : Q2R 2 = 2.
Proof. unfold Q2R; simpl; lra. Qed.
Lemma Q2R_m1' : Q2R (-1) = -1.
Proof. unfold Q2R; simpl; lra. Qed.

Lemma Qeq_bool_Q2R q r : Qeq_bool q r = true -> Q2R q = Q2R r.
Proof. intros H. apply Qeq_eqR, Qeq_bool_eq, H. Qed.

(* a rational equal (as a rational) to the integer z is recognised as an
   integer and has that value, whatever its representation *)
Lemma Qint_of_Z q z :
  Qeq_bool q (inject_Z z) = true -> Qis_int q = true /\ Qfloor' q = z.
Proof.
  intros H. apply Qeq_bool_eq in H. unfold Qeq in H. simpl in H.
  rewrite Z.mul_1_r in H. unfold Qis_int, Qfloor'. rewrite H. split.
  - rewrite Z_mod_mult. reflexivity.
  - apply Z.div_mul. discriminate.
Qed.

Lemma Qis_int_minus1 q : Qis_int (q - 1) = Qis_int q.
Proof.
  destruct q as [n d]. unfold Qis_int, Qminus, Qplus, Qopp. simpl.
  rewrite Z.mul_1_r, Pos.mul_1_r.
  replace (n + Z.neg d)%Z with (n + (-1) * Z.pos d)%Z by lia.
  now rewrite Z_mod_plus_full.
Qed.

Lemma Qfloor_minus1 q : Qfloor' (q - 1) = (Qfloor' q - 1)%Z.
Proof.
  destruct q as [n d]. unfold Qfloor', Qminus, Qplus, Qopp. simpl.
  rewrite Z.mul_1_r, Pos.mul_1_r.
  replace (n + Z.neg d)%Z with (n + (-1) * Z.pos d)%Z by lia.
  rewrite Z.div_add by discriminate. lia.
Qed.

Lemma Qint_Q2R q : Qis_int q = true -> Q2R q = IZR (Qfloor' q).
Proof.
  destruct q as [n d]. unfold Qis_int, Qfloor', Q2R. simpl. intros H.
  apply Z.eqb_eq in H.
  assert (Hn : n = (Z.pos d * (n / Z.pos d))%Z).
  { rewrite (Z_div_mod_eq_full n (Z.pos d)) at 1. lia. }
  rewrite Hn at 1. rewrite mult_IZR. field.
  apply not_0_IZR. discriminate.
Qed.

(* an integer-valued rational with floor z is equal to z *)
Lemma Qint_floor_eq q z :
  Qis_int q = true -> Qfloor' q = z -> Qeq_bool q (inject_Z z) = true.
Proof.
  destruct q as [n d]. unfold Qis_int, Qfloor'. simpl. intros H Hz.
  apply Z.eqb_eq in H. apply Qeq_eq_bool. unfold Qeq. simpl.
  rewrite Z.mul_1_r, <- Hz.
  rewrite (Z_div_mod_eq_full n (Z.pos d)) at 1. lia.
Qed.

Lemma powQ_exp0 a q : Qeq_bool q 0 = true -> powQ a q = 1.
Proof.
  intros H. destruct (Qint_of_Z q 0 H) as [Hi Hf].
  unfold powQ. rewrite Hi, Hf. reflexivity.
Qed.

Lemma powQ_exp1 a q : Qeq_bool q 1 = true -> powQ a q = a.
Proof.
  intros H. destruct (Qint_of_Z q 1 H) as [Hi Hf].
  unfold powQ. rewrite Hi, Hf. simpl. ring.
Qed.

Lemma powQ_exp2 a q : Qeq_bool q 2 = true -> powQ a q = a * a.
Proof.
  intros H. destruct (Qint_of_Z q 2 H) as [Hi Hf].
  unfold powQ. rewrite Hi, Hf. simpl. ring.
Qed.

Lemma powQ_base1 q : powQ 1 q = 1.
Proof.
  unfold powQ. destruct (Qis_int q).
  - apply powerRZ_R1.
  - unfold Rpower. rewrite ln_1, Rmult_0_r. apply exp_0.
Qed.

Lemma powQ_base0 q : Qis_int q = true -> (0 < Qfloor' q)%Z -> powQ 0 q = 0.
Proof.
  intros Hi Hf. unfold powQ. rewrite Hi.
  destruct (Qfloor' q) as [|p|p]; try lia.
  simpl. apply pow_i. lia.
Qed.

(* ------------------------------------------------------------------ *)
(** * Soundness of the simplifiers with respect to [evalR] *)

Section Simplifiers.
  Variables rho penv : env.
  Notation ev := (evalR rho penv).

  Lemma ev_c0 : ev c0 = 0.  Proof. apply Q2R_0'. Qed.
  Lemma ev_c1 : ev c1 = 1.  Proof. apply Q2R_1'. Qed.
  Lemma ev_c2 : ev c2 = 2.  Proof. apply Q2R_2'. Qed.

  Lemma is_zero_ev e : is_zero e = true -> ev e = 0.
  Proof.
    destruct e; simpl; try discriminate. intros H.
    rewrite (Qeq_bool_Q2R _ _ H). apply Q2R_0'.
  Qed.

  Lemma is_one_ev e : is_one e = true -> ev e = 1.
  Proof.
    destruct e; simpl; try discriminate. intros H.
    rewrite (Qeq_bool_Q2R _ _ H). apply Q2R_1'.
  Qed.

  Lemma evalR_pow_const l q : ev (Bin Pow l (Const q)) = powQ (ev l) q.
  Proof. reflexivity. Qed.

  Lemma evalR_pow_gen l r : is_const r = false -> ev (Bin Pow l r) = Rpower (ev l) (ev r).
  Proof. destruct r; simpl; intros H; try discriminate; reflexivity. Qed.

  Lemma s_add_ev l r : ev (s_add l r) = ev l + ev r.
  Proof.
    unfold s_add. destruct (is_zero l) eqn:El.
    - rewrite (is_zero_ev _ El). ring.
    - destruct (is_zero r) eqn:Er.
      + rewrite (is_zero_ev _ Er). ring.
      + reflexivity.
  Qed.

  Lemma s_neg_ev e : ev (s_neg e) = - ev e.
  Proof.
    unfold s_neg. destruct (is_zero e) eqn:Ee.
    - rewrite (is_zero_ev _ Ee), ev_c0. ring.
    - destruct e; try reflexivity. destruct o; try reflexivity.
      simpl. ring.
  Qed.

  Lemma s_sub_ev l r : ev (s_sub l r) = ev l - ev r.
  Proof.
    unfold s_sub. destruct (is_zero r) eqn:Er.
    - rewrite (is_zero_ev _ Er). ring.
    - destruct (is_zero l) eqn:El.
      + rewrite s_neg_ev, (is_zero_ev _ El). ring.
      + reflexivity.
  Qed.

  Lemma s_mul_ev l r : ev (s_mul l r) = ev l * ev r.
  Proof.
    unfold s_mul. destruct (is_zero l) eqn:El; simpl.
    - rewrite (is_zero_ev _ El), Q2R_0'. ring.
    - destruct (is_zero r) eqn:Er; simpl.
      + rewrite (is_zero_ev _ Er), Q2R_0'. ring.
      + destruct (is_one l) eqn:Ol.
        * rewrite (is_one_ev _ Ol). ring.
        * destruct (is_one r) eqn:Or.
          -- rewrite (is_one_ev _ Or). ring.
          -- reflexivity.
  Qed.

  (* unconditional: 0 / r = 0 and l / 1 = l in R (division is total) *)
  Lemma s_div_ev l r : ev (s_div l r) = ev l / ev r.
  Proof.
    unfold s_div. destruct (is_zero l) eqn:El.
    - rewrite (is_zero_ev _ El), ev_c0. unfold Rdiv. ring.
    - destruct (is_one r) eqn:Or.
      + rewrite (is_one_ev _ Or). unfold Rdiv. rewrite Rinv_1. ring.
      + reflexivity.
  Qed.

  (* [s_pow b (Const q)] denotes b^q, provided that when the base is the literal
     0 the exponent is a positive integer (0^q = 0 only then; for the other
     literal-0 cases evalR gives 0^0 = 1, 0^(-k) = /0, 0^(non-integer) = 1). *)
  Lemma s_pow_ev b q :
    (is_zero b = true -> Qeq_bool q 0 = false -> Qeq_bool q 1 = false ->
       Qis_int q = true /\ (0 < Qfloor' q)%Z) ->
    ev (s_pow b (Const q)) = powQ (ev b) q.
  Proof.
    intros Hside. unfold s_pow. simpl is_zero at 1. simpl is_one at 1.
    destruct (Qeq_bool q 0) eqn:E0.
    - rewrite ev_c1. symmetry. now apply powQ_exp0.
    - destruct (Qeq_bool q 1) eqn:E1.
      + symmetry. now apply powQ_exp1.
      + destruct (is_zero b) eqn:Eb.
        * destruct (Hside eq_refl eq_refl eq_refl) as [Hi Hf].
          rewrite (is_zero_ev _ Eb), ev_c0. symmetry. now apply powQ_base0.
        * destruct (is_one b) eqn:Ob.
          -- rewrite (is_one_ev _ Ob), ev_c1. symmetry. apply powQ_base1.
          -- reflexivity.
  Qed.
End Simplifiers.

(* ------------------------------------------------------------------ *)
(** * Derivatives of the elementary functions *)

Lemma is_derive_eq (f : R -> R) (x l l' : R) : is_derive f x l -> l = l' -> is_derive f x l'.
Proof. intros H <-; exact H. Qed.

Lemma is_derive_comp_R (f g : R -> R) (x df dg : R) :
  is_derive f (g x) df -> is_derive g x dg -> is_derive (fun t => f (g t)) x (dg * df).
Proof. intros Hf Hg. exact (is_derive_comp f g x df dg Hf Hg). Qed.

(* derivative of each elementary function, written the way Autodiff.v writes it *)
Definition uop_d (o : uop) (a : R) : R :=
  match o with
  | Neg => -1
  | Abs => a / Rabs a
  | Sin => cos a
  | Cos => - sin a
  | Tan => 1 / (cos a * cos a)
  | Exp => exp a
  | Log => 1 / a
  | Log2 => 1 / (a * ln 2)
  | Log10 => 1 / (a * ln 10)
  | Sqrt => 1 / (2 * sqrt a)
  | Tanh => 1 - tanh a * tanh a
  | Sinh => cosh a
  | Cosh => sinh a
  | Asin => 1 / sqrt (1 - a * a)
  | Acos => - (1 / sqrt (1 - a * a))
  | Atan => 1 / (1 + a * a)
  | Asinh => 1 / sqrt (1 + a * a)
  | Acosh => 1 / sqrt (a * a - 1)
  | Atanh => 1 / (1 - a * a)
  end.

Lemma cosh_neq0 a : cosh a <> 0.
Proof. unfold cosh. generalize (exp_pos a) (exp_pos (- a)). lra. Qed.

Lemma sign_div_abs a : a <> 0 -> sign a = a / Rabs a.
Proof.
  intros H. destruct (Rlt_dec 0 a) as [Hp|Hn].
  - rewrite sign_eq_1, Rabs_pos_eq by lra. field. lra.
  - rewrite sign_eq_m1, Rabs_left by lra. field. lra.
Qed.

Lemma ln_2_pos' : 0 < ln 2.
Proof. rewrite <- ln_1. apply ln_increasing; lra. Qed.
Lemma ln_10_pos' : 0 < ln 10.
Proof. rewrite <- ln_1. apply ln_increasing; lra. Qed.

Lemma uop_derive o a : uop_reg o a -> is_derive (uopR o) a (uop_d o a).
Proof.
  destruct o; unfold uopR, uop_reg, uop_d; intros H.
  - auto_derive; [exact I|ring].
  - auto_derive; [exact H|]. rewrite (sign_div_abs a H). ring.
  - auto_derive; [exact I|ring].
  - auto_derive; [exact I|ring].
  - unfold tan. auto_derive; [exact H|].
    assert (Hs : sin a * sin a = 1 - cos a * cos a)
      by (generalize (sin2_cos2 a); unfold Rsqr; lra).
    field_simplify_eq; [|exact H]. nra.
  - auto_derive; [exact I|ring].
  - auto_derive; [exact H|]. field. lra.
  - auto_derive; [exact H|]. field. split; [apply Rgt_not_eq, ln_2_pos'|lra].
  - auto_derive; [exact H|]. field. split; [apply Rgt_not_eq, ln_10_pos'|lra].
  - auto_derive; [exact H|]. field. apply Rgt_not_eq, sqrt_lt_R0, H.
  - unfold tanh. auto_derive; [apply cosh_neq0|]. field. apply cosh_neq0.
  - auto_derive; [exact I|ring].
  - auto_derive; [exact I|ring].
  - apply is_derive_Reals.
    replace (1 - a * a) with (1 - a²) by (unfold Rsqr; ring).
    rewrite <- (derive_pt_asin a H). apply (derive_pt_eq_1 asin a _ (derivable_pt_asin a H)). reflexivity.
  - apply is_derive_Reals.
    replace (- (1 / sqrt (1 - a * a))) with (-1 / sqrt (1 - a²)) by (unfold Rsqr, Rdiv; ring).
    rewrite <- (derive_pt_acos a H). apply (derive_pt_eq_1 acos a _ (derivable_pt_acos a H)). reflexivity.
  - auto_derive; [exact I|]. unfold Rsqr. field. nra.
  - apply is_derive_Reals. replace (1 / sqrt (1 + a * a)) with (/ sqrt (a ^ 2 + 1)).
    + apply derivable_pt_lim_arcsinh.
    + replace (a ^ 2 + 1) with (1 + a * a) by ring. field.
      apply Rgt_not_eq, sqrt_lt_R0. nra.
  - assert (H1 : 0 < a * a + - (1)) by nra.
    assert (Hs := sqrt_lt_R0 _ H1).
    auto_derive.
    + repeat split; [exact H1|lra].
    + replace (a * a - 1) with (a * a + - (1)) by ring. field. lra.
  - auto_derive.
    + repeat split; [lra|]. apply Rdiv_lt_0_compat; lra.
    + field. repeat split; nra.
Qed.

Lemma pow_derive (k : nat) a : is_derive (fun t => t ^ k) a (INR k * a ^ pred k).
Proof. auto_derive; [exact I|ring]. Qed.

Lemma powerRZ_derive (n : Z) a :
  (0 <= n)%Z \/ a <> 0 -> is_derive (fun t => powerRZ t n) a (IZR n * powerRZ a (n - 1)).
Proof.
  intros H. destruct n as [|p|p].
  - simpl. auto_derive; [exact I|ring].
  - apply is_derive_ext with (fun t => t ^ Pos.to_nat p); [reflexivity|].
    eapply is_derive_eq; [apply pow_derive|].
    rewrite INR_IZR_INZ, positive_nat_Z. f_equal.
    rewrite pow_powerRZ. f_equal. lia.
  - assert (Ha : a <> 0) by (destruct H as [H|H]; [lia|exact H]).
    apply is_derive_ext with (fun t => / t ^ Pos.to_nat p); [reflexivity|].
    replace (Z.neg p - 1)%Z with (Z.neg (Pos.succ p)) by lia.
    change (IZR (Z.neg p)) with (- IZR (Z.pos p)).
    rewrite <- positive_nat_Z, <- INR_IZR_INZ. simpl powerRZ.
    rewrite Pos2Nat.inj_succ.
    destruct (Pos2Nat.is_succ p) as [k Hk]. rewrite Hk.
    assert (Hak : a ^ k <> 0) by (apply pow_nonzero; exact Ha).
    eapply is_derive_eq.
    + apply (is_derive_inv (fun t => t ^ S k) a); [apply pow_derive|].
      apply pow_nonzero; exact Ha.
    + simpl pred. rewrite S_INR. simpl pow. field. split; assumption.
Qed.

Lemma powQ_derive q a :
  powQ_reg a q -> is_derive (fun t => powQ t q) a (Q2R q * powQ a (q - 1)).
Proof.
  unfold powQ_reg, powQ. rewrite Qis_int_minus1, Qfloor_minus1.
  destruct (Qis_int q) eqn:Hi; intros H.
  - rewrite (Qint_Q2R q Hi). apply powerRZ_derive, H.
  - apply is_derive_Reals. rewrite Q2R_minus, Q2R_1'.
    apply derivable_pt_lim_power, H.
Qed.

Lemma Rpower_derive (f g : R -> R) (x df dg : R) :
  is_derive f x df -> is_derive g x dg -> 0 < f x ->
  is_derive (fun t => Rpower (f t) (g t)) x
            (Rpower (f x) (g x) * (dg * ln (f x) + g x * df / f x)).
Proof.
  intros Hf Hg Hpos. unfold Rpower.
  eapply is_derive_eq.
  - apply (is_derive_comp_R exp (fun t => g t * ln (f t))); [apply is_derive_exp|].
    apply Derive.is_derive_mult; [exact Hg|].
    apply (is_derive_comp_R ln f); [apply is_derive_ln, Hpos|exact Hf].
  - cbv beta. field. lra.
Qed.

(* ------------------------------------------------------------------ *)
(** * R-typed wrappers of Coquelicot's rules *)

Lemma is_derive_const_R (c x : R) : is_derive (fun _ : R => c) x 0.
Proof. exact (is_derive_const c x). Qed.

Lemma is_derive_id_R (x : R) : is_derive (fun t : R => t) x 1.
Proof. exact (is_derive_id x). Qed.

Lemma is_derive_plus_R (f g : R -> R) (x df dg : R) :
  is_derive f x df -> is_derive g x dg -> is_derive (fun t => f t + g t) x (df + dg).
Proof. intros Hf Hg. exact (is_derive_plus f g x df dg Hf Hg). Qed.

Lemma is_derive_minus_R (f g : R -> R) (x df dg : R) :
  is_derive f x df -> is_derive g x dg -> is_derive (fun t => f t - g t) x (df - dg).
Proof. intros Hf Hg. exact (is_derive_minus f g x df dg Hf Hg). Qed.

Lemma is_derive_mult_R (f g : R -> R) (x df dg : R) :
  is_derive f x df -> is_derive g x dg ->
  is_derive (fun t => f t * g t) x (df * g x + f x * dg).
Proof. intros Hf Hg. exact (Derive.is_derive_mult f g x df dg Hf Hg). Qed.

(* ------------------------------------------------------------------ *)
(** * Sums over lists *)

Lemma sumR_derive {A} (l : list A) (f : A -> R -> R) (d : A -> R) (x : R) :
  Forall (fun a => is_derive (f a) x (d a)) l ->
  is_derive (fun t => sumR (map (fun a => f a t) l)) x (sumR (map d l)).
Proof.
  induction 1 as [|a l Ha Hl IH]; simpl.
  - apply is_derive_const_R.
  - apply is_derive_plus_R; assumption.
Qed.

Lemma dotR_const_derive {B} (cs : list R) (lb : list B) (g : B -> R -> R)
      (dg : B -> R) (x : R) :
  Forall (fun b => is_derive (g b) x (dg b)) lb ->
  is_derive (fun t => dotR cs (map (fun b => g b t) lb)) x (dotR cs (map dg lb)).
Proof.
  intros H. revert cs. induction H as [|b lb Hb Hl IH]; intros [|c cs]; simpl;
    try apply is_derive_const_R.
  apply is_derive_plus_R; [|apply IH]. apply is_derive_scal, Hb.
Qed.

Lemma dotR_derive {A B} (la : list A) (lb : list B) (f : A -> R -> R) (g : B -> R -> R)
      (df : A -> R) (dg : B -> R) (x : R) :
  Forall (fun a => is_derive (f a) x (df a)) la ->
  Forall (fun b => is_derive (g b) x (dg b)) lb ->
  is_derive (fun t => dotR (map (fun a => f a t) la) (map (fun b => g b t) lb)) x
            (dotR (map df la) (map (fun b => g b x) lb) +
             dotR (map (fun a => f a x) la) (map dg lb)).
Proof.
  intros Ha. revert lb. induction Ha as [|a la Ha Hla IH]; intros lb Hb.
  - simpl. eapply is_derive_eq; [apply is_derive_const_R|ring].
  - destruct Hb as [|b lb Hb Hlb]; simpl.
    + eapply is_derive_eq; [apply is_derive_const_R|ring].
    + eapply is_derive_eq.
      * apply is_derive_plus_R; [apply is_derive_mult_R; [exact Ha|exact Hb]|].
        apply IH, Hlb.
      * ring.
Qed.

Lemma dotR_map_same {A} (f g : A -> R) (l : list A) :
  dotR (map f l) (map g l) = sumR (map (fun a => f a * g a) l).
Proof. induction l as [|a l IH]; simpl; [reflexivity|]. now rewrite IH. Qed.

Lemma sumR_scal {A} (k : R) (h : A -> R) (l : list A) :
  sumR (map (fun a => k * h a) l) = k * sumR (map h l).
Proof. induction l as [|a l IH]; simpl; [ring|]. rewrite IH. ring. Qed.

Lemma sumR_plus {A} (h1 h2 : A -> R) (l : list A) :
  sumR (map (fun a => h1 a + h2 a) l) = sumR (map h1 l) + sumR (map h2 l).
Proof. induction l as [|a l IH]; simpl; [ring|]. rewrite IH. ring. Qed.

Lemma sumR_ext_in {A} (h1 h2 : A -> R) (l : list A) :
  (forall a, In a l -> h1 a = h2 a) -> sumR (map h1 l) = sumR (map h2 l).
Proof. intros H. f_equal. apply map_ext_in, H. Qed.

Lemma sumR_zero {A} (h : A -> R) (l : list A) :
  (forall a, In a l -> h a = 0) -> sumR (map h l) = 0.
Proof.
  induction l as [|a l IH]; simpl; intros H; [reflexivity|].
  rewrite H by (left; reflexivity). rewrite IH; [ring|]. intros; apply H; now right.
Qed.

(* ------------------------------------------------------------------ *)
(** * Names: membership, distinctness, indicator sums *)

Lemma mem_name_In x xs : mem_name x xs = true <-> In x xs.
Proof.
  unfold mem_name. rewrite existsb_exists. split.
  - intros [y [Hy E]]. apply String.eqb_eq in E. now subst.
  - intros H. exists x. split; [exact H|apply String.eqb_refl].
Qed.

Lemma mem_name_false x xs : mem_name x xs = false <-> ~ In x xs.
Proof.
  rewrite <- mem_name_In. destruct (mem_name x xs); split; intros H; try discriminate;
    try reflexivity; try (intros H'; discriminate). exfalso; apply H; reflexivity.
Qed.

Lemma NoDupb_NoDup xs : NoDupb xs = true -> NoDup xs.
Proof.
  induction xs as [|x xs IH]; simpl; intros H; [constructor|].
  apply andb_true_iff in H. destruct H as [H1 H2]. constructor.
  - apply negb_true_iff in H1. apply (proj1 (mem_name_false x xs)). exact H1.
  - apply IH, H2.
Qed.

Definition ind (v y : string) : R := if String.eqb y v then 1 else 0.

Lemma sum_indicator (g : string -> R) v xs :
  NoDup xs ->
  sumR (map (fun y => g y * ind v y) xs) = if mem_name v xs then g v else 0.
Proof.
  induction 1 as [|y xs Hy Hxs IH]; simpl; [reflexivity|].
  rewrite IH. unfold ind at 1. rewrite (String.eqb_sym v y).
  destruct (String.eqb y v) eqn:E; simpl.
  - apply String.eqb_eq in E. subst y.
    apply mem_name_false in Hy. rewrite Hy. ring.
  - ring.
Qed.

Lemma is_var_names es : forallb is_var es = true -> es = map Var (vec_names es).
Proof.
  induction es as [|e es IH]; simpl; intros H; [reflexivity|].
  apply andb_true_iff in H. destruct H as [H1 H2].
  destruct e; try discriminate. simpl. f_equal. apply IH, H2.
Qed.

Lemma vec_names_map_Var xs : vec_names (map Var xs) = xs.
Proof. induction xs as [|x xs IH]; simpl; [reflexivity|]. now rewrite IH. Qed.

Lemma list_eqb_string_eq (l1 l2 : list string) :
  list_eqb String.eqb l1 l2 = true -> l1 = l2.
Proof.
  revert l2. induction l1 as [|a l1 IH]; intros [|b l2]; simpl; intros H;
    try discriminate; [reflexivity|].
  apply andb_true_iff in H. destruct H as [H1 H2].
  apply String.eqb_eq in H1. subst. f_equal. apply IH, H2.
Qed.

(* ------------------------------------------------------------------ *)
(** * Indexed sums (used for the quadratic form) *)

Definition bigsum (n : nat) (f : nat -> R) : R := sumR (map f (seq 0 n)).

Lemma bigsum_ext n f g :
  (forall i, (i < n)%nat -> f i = g i) -> bigsum n f = bigsum n g.
Proof.
  intros H. apply sumR_ext_in. intros i Hi. apply in_seq in Hi. apply H. lia.
Qed.

Lemma bigsum_plus n f g :
  bigsum n (fun i => f i + g i) = bigsum n f + bigsum n g.
Proof. apply sumR_plus. Qed.

Lemma bigsum_scal n k f : bigsum n (fun i => k * f i) = k * bigsum n f.
Proof. apply sumR_scal. Qed.

Lemma bigsum_zero n f : (forall i, (i < n)%nat -> f i = 0) -> bigsum n f = 0.
Proof. intros H. apply sumR_zero. intros i Hi. apply in_seq in Hi. apply H. lia. Qed.

Lemma bigsum_S_shift n f : bigsum (S n) f = f 0%nat + bigsum n (fun i => f (S i)).
Proof.
  unfold bigsum. simpl. f_equal. rewrite <- seq_shift, map_map. reflexivity.
Qed.

Lemma sumR_app l1 l2 : sumR (l1 ++ l2) = sumR l1 + sumR l2.
Proof. induction l1 as [|a l1 IH]; simpl; [ring|]. rewrite IH. ring. Qed.

Lemma bigsum_S_last n f : bigsum (S n) f = bigsum n f + f n.
Proof.
  unfold bigsum. rewrite seq_S, map_app, sumR_app. simpl. ring.
Qed.

Lemma sumR_swap {A B} (f : A -> B -> R) (la : list A) (lb : list B) :
  sumR (map (fun a => sumR (map (fun b => f a b) lb)) la) =
  sumR (map (fun b => sumR (map (fun a => f a b) la)) lb).
Proof.
  induction la as [|a la IH]; simpl.
  - symmetry. apply sumR_zero. reflexivity.
  - rewrite IH. symmetry. apply sumR_plus.
Qed.

Lemma bigsum_swap n m (f : nat -> nat -> R) :
  bigsum n (fun i => bigsum m (fun j => f i j)) =
  bigsum m (fun j => bigsum n (fun i => f i j)).
Proof. apply sumR_swap. Qed.

Lemma bigsum_onehot n i (h : nat -> R) :
  (i < n)%nat ->
  bigsum n (fun k => h k * (if Nat.eqb k i then 1 else 0)) = h i.
Proof.
  induction n as [|n IH]; intros Hi; [lia|].
  rewrite bigsum_S_last. destruct (Nat.eq_dec i n) as [->|Hne].
  - rewrite Nat.eqb_refl. rewrite bigsum_zero; [ring|].
    intros k Hk. replace (Nat.eqb k n) with false; [ring|].
    symmetry. apply Nat.eqb_neq. lia.
  - rewrite IH by lia. replace (Nat.eqb n i) with false; [ring|].
    symmetry. apply Nat.eqb_neq. lia.
Qed.

Lemma nth_nil_R i : nth i (@nil R) 0 = 0.
Proof. destruct i; reflexivity. Qed.

Lemma dotR_bigsum_l a b :
  dotR a b = bigsum (length a) (fun i => nth i a 0 * nth i b 0).
Proof.
  revert b. induction a as [|x a IH]; intros b; simpl.
  - reflexivity.
  - rewrite bigsum_S_shift. destruct b as [|y b]; simpl.
    + rewrite bigsum_zero; [ring|]. intros i _. destruct i; simpl; ring.
    + now rewrite IH.
Qed.

Lemma dotR_comm a b : dotR a b = dotR b a.
Proof.
  revert b. induction a as [|x a IH]; intros [|y b]; simpl; try reflexivity.
  rewrite IH. ring.
Qed.

Lemma dotR_bigsum_r a b :
  dotR a b = bigsum (length b) (fun i => nth i a 0 * nth i b 0).
Proof.
  rewrite dotR_comm, dotR_bigsum_l. apply bigsum_ext. intros; ring.
Qed.

Lemma nth_map_Q2R j row : nth j (map Q2R row) 0 = Q2R (nth j row 0%Q).
Proof.
  revert j. induction row as [|c row IH]; intros [|j]; simpl;
    try (symmetry; apply Q2R_0'); try reflexivity. apply IH.
Qed.

Lemma nth_map_seq {A} (h : nat -> A) n j d :
  (j < n)%nat -> nth j (map h (seq 0 n)) d = h j.
Proof.
  intros Hj. rewrite (nth_indep _ d (h 0%nat)) by (rewrite map_length, seq_length; exact Hj).
  rewrite map_nth, seq_nth by exact Hj. reflexivity.
Qed.

(* entry (i,j) of the matrix, 0 outside *)
Definition qa (m : list (list Q)) (i j : nat) : R := Q2R (nth j (nth i m []) 0%Q).

Lemma quad_bigsum m (X Y : list R) n :
  length X = n -> length Y = n ->
  dotR X (map (fun row => matvec_row row Y) m) =
  bigsum n (fun i => nth i X 0 * bigsum n (fun j => qa m i j * nth j Y 0)).
Proof.
  intros HX HY. rewrite dotR_bigsum_l, HX. apply bigsum_ext. intros i Hi. f_equal.
  change 0 with (matvec_row [] Y) at 1.
  rewrite (map_nth (fun row => matvec_row row Y)).
  unfold matvec_row. rewrite dotR_bigsum_r, HY. apply bigsum_ext. intros j Hj.
  rewrite nth_map_Q2R. reflexivity.
Qed.

Lemma qform_identity m (X DX : list R) n :
  length X = n -> length DX = n ->
  dotR DX (map (fun row => matvec_row row X) m) +
  dotR X (map (fun row => matvec_row row DX) m) =
  bigsum n (fun i => bigsum n (fun j => (qa m i j + qa m j i) * nth j X 0) * nth i DX 0).
Proof.
  intros HX HD. rewrite (quad_bigsum m DX X n HD HX), (quad_bigsum m X DX n HX HD).
  transitivity
    (bigsum n (fun i => nth i DX 0 * bigsum n (fun j => qa m i j * nth j X 0)) +
     bigsum n (fun i => bigsum n (fun j => qa m j i * nth j X 0 * nth i DX 0))).
  - f_equal. rewrite bigsum_swap. apply bigsum_ext. intros i Hi.
    rewrite <- bigsum_scal. apply bigsum_ext. intros j Hj. ring.
  - rewrite <- bigsum_plus. apply bigsum_ext. intros i Hi.
    rewrite <- bigsum_scal, <- bigsum_plus.
    rewrite (Rmult_comm (bigsum n _)), <- bigsum_scal.
    apply bigsum_ext. intros j Hj. ring.
Qed.
