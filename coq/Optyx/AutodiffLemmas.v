(* AutodiffLemmas.v — supporting lemmas for AutodiffProofs.v (property C02):
   a strong induction principle for [expr], extensionality of [evalR],
   arithmetic facts on [Qis_int]/[Qfloor']/[powQ], soundness of the simplifiers
   of Autodiff.v with respect to [evalR], list-sum calculus lemmas and the
   derivatives of the elementary functions of SemR.v. *)
(* Coquelicot first: its AutoDerive exports [expr], [Var], [Forall], ... which the
   later imports must shadow. *)
From Coquelicot Require Import Coquelicot.
From Coq Require Import Reals QArith Qreals String List Bool ZArith Lia Lra
     FunctionalExtensionality.
From Optyx Require Import Syntax SemR Autodiff.
Import ListNotations.
Close Scope Q_scope.
Open Scope R_scope.

(* ------------------------------------------------------------------ *)
(** * Strong induction principle (nested lists get [Forall] hypotheses) *)

Section ExprIndStrong.
  Variable P : expr -> Prop.
  Hypothesis HConst : forall q, P (Const q).
  Hypothesis HVar : forall x, P (Var x).
  Hypothesis HParam : forall p, P (Param p).
  Hypothesis HBin : forall o l r, P l -> P r -> P (Bin o l r).
  Hypothesis HUn : forall o a, P a -> P (Un o a).
  Hypothesis HVSum : forall i xs, P (VSum i xs).
  Hypothesis HLinComb : forall cs k es, Forall P es -> P (LinComb cs k es).
  Hypothesis HDot : forall kl ls kr rs, Forall P ls -> Forall P rs -> P (Dot kl ls kr rs).
  Hypothesis HL2n : forall k es, Forall P es -> P (L2n k es).
  Hypothesis HL1n : forall k es, Forall P es -> P (L1n k es).
  Hypothesis HQForm : forall k es m, Forall P es -> P (QForm k es m).
  Hypothesis HVPowSum : forall i xs p, P (VPowSum i xs p).
  Hypothesis HVUnSum : forall i xs o, P (VUnSum i xs o).
  Hypothesis HVExprSum : forall es, Forall P es -> P (VExprSum es).
  Hypothesis HMSum : forall b es, Forall P es -> P (MSum b es).
  Hypothesis HFrob : forall es, Forall P es -> P (Frob es).

  Fixpoint expr_ind_strong (e : expr) : P e :=
    let fix go (l : list expr) : Forall P l :=
      match l with
      | [] => Forall_nil P
      | x :: r => Forall_cons x (expr_ind_strong x) (go r)
      end in
    match e with
    | Const q => HConst q
    | Var x => HVar x
    | Param p => HParam p
    | Bin o l r => HBin o l r (expr_ind_strong l) (expr_ind_strong r)
    | Un o a => HUn o a (expr_ind_strong a)
    | VSum i xs => HVSum i xs
    | LinComb cs k es => HLinComb cs k es (go es)
    | Dot kl ls kr rs => HDot kl ls kr rs (go ls) (go rs)
    | L2n k es => HL2n k es (go es)
    | L1n k es => HL1n k es (go es)
    | QForm k es m => HQForm k es m (go es)
    | VPowSum i xs p => HVPowSum i xs p
    | VUnSum i xs o => HVUnSum i xs o
    | VExprSum es => HVExprSum es (go es)
    | MSum b es => HMSum b es (go es)
    | Frob es => HFrob es (go es)
    end.
End ExprIndStrong.

(* ------------------------------------------------------------------ *)
(** * Generic list facts *)

Lemma map_ext_Forall' {A B} (f g : A -> B) (l : list A) :
  Forall (fun a => f a = g a) l -> map f l = map g l.
Proof.
  induction 1 as [|a l Ha Hl IH]; simpl; [reflexivity|]. now rewrite Ha, IH.
Qed.

Lemma forallb_Forall {A} (p : A -> bool) (l : list A) :
  forallb p l = true <-> Forall (fun a => p a = true) l.
Proof.
  induction l as [|a l IH]; simpl.
  - split; intros; [constructor | reflexivity].
  - rewrite andb_true_iff, IH. split.
    + intros [H1 H2]; constructor; assumption.
    + intros H; inversion H; subst; split; assumption.
Qed.

Lemma Forall_and {A} (P Q : A -> Prop) (l : list A) :
  Forall P l -> Forall Q l -> Forall (fun a => P a /\ Q a) l.
Proof.
  induction 1 as [|a l Ha Hl IH]; intros HQ; inversion HQ; subst; constructor; auto.
Qed.

Lemma Forall_mp {A} (P Q : A -> Prop) (l : list A) :
  Forall (fun a => P a -> Q a) l -> Forall P l -> Forall Q l.
Proof.
  induction 1 as [|a l Ha Hl IH]; intros HP; inversion HP; subst; constructor; auto.
Qed.

Lemma fold_and_Forall {A} (P : A -> Prop) (l : list A) :
  fold_right (fun a Q => P a /\ Q) True l <-> Forall P l.
Proof.
  induction l as [|a l IH]; simpl.
  - split; intros; [constructor | exact I].
  - rewrite IH. split.
    + intros [H1 H2]; constructor; assumption.
    + intros H; inversion H; subst; split; assumption.
Qed.

(* ------------------------------------------------------------------ *)
(** * Extensionality of [evalR] in the variable environment *)

Lemma evalR_ext : forall penv e rho1 rho2,
  (forall x, rho1 x = rho2 x) -> evalR rho1 penv e = evalR rho2 penv e.
Proof.
  intros penv e rho1 rho2 Hrho.
  pattern e; apply expr_ind_strong; clear e;
    [intros q|intros x|intros p|intros o l r IHl IHr|intros o a IHa|intros i xs
    |intros cs k es IH|intros kl ls kr rs IHls IHrs
    |intros k es IH|intros k es IH|intros k es m IH|intros i xs p|intros i xs o
    |intros es IH|intros b es IH|intros es IH].
  - reflexivity.
  - simpl. apply Hrho.
  - reflexivity.
  - destruct o; simpl; rewrite IHl, IHr; reflexivity.
  - simpl. now rewrite IHa.
  - simpl. f_equal. apply map_ext. intros; apply Hrho.
  - simpl. f_equal. now apply map_ext_Forall'.
  - simpl. f_equal; now apply map_ext_Forall'.
  - simpl. do 2 f_equal. apply map_ext_Forall'.
    eapply Forall_impl; [|exact IH]. simpl. intros a Ha. now rewrite Ha.
  - simpl. f_equal. apply map_ext_Forall'.
    eapply Forall_impl; [|exact IH]. simpl. intros a Ha. now rewrite Ha.
  - simpl. rewrite (map_ext_Forall' _ _ _ IH). reflexivity.
  - simpl. f_equal. apply map_ext. intros y. now rewrite Hrho.
  - simpl. f_equal. apply map_ext. intros y. now rewrite Hrho.
  - simpl. f_equal. now apply map_ext_Forall'.
  - simpl. f_equal. now apply map_ext_Forall'.
  - simpl. do 2 f_equal. apply map_ext_Forall'.
    eapply Forall_impl; [|exact IH]. simpl. intros a Ha. now rewrite Ha.
Qed.

Lemma upd_same_pt (rho : env) v x : upd rho v (rho v) x = rho x.
Proof.
  unfold upd. destruct (String.eqb x v) eqn:E; [|reflexivity].
  apply String.eqb_eq in E. now subst.
Qed.

Lemma upd_same (rho : env) v : upd rho v (rho v) = rho.
Proof. apply functional_extensionality. intros x. apply upd_same_pt. Qed.

Lemma evalR_upd_same rho penv v e : evalR (upd rho v (rho v)) penv e = evalR rho penv e.
Proof. apply evalR_ext. intros x. apply upd_same_pt. Qed.

Lemma upd_other (rho : env) v y t : String.eqb y v = false -> upd rho v t y = rho y.
Proof. unfold upd. now intros ->. Qed.

Lemma upd_this (rho : env) v t : upd rho v t v = t.
Proof. unfold upd. now rewrite String.eqb_refl. Qed.

(* ------------------------------------------------------------------ *)
(** * Rational constants, [Qis_int], [Qfloor'], [powQ] *)

Lemma Q2R_0' : Q2R 0 = 0.
Proof. unfold Q2R; simpl; lra. Qed.
Lemma Q2R_1' : Q2R 1 = 1.
Proof. unfold Q2R; simpl; lra. Qed.
Lemma Q2R_2' : Q2R 2 = 2.
Proof. unfold Q2R; simpl; lra. Qed.
Lemma Q2R_m1' : Q2R (-1) = -1.
Proof. unfold Q2R; simpl; lra. Qed.

Lemma Qeq_bool_Q2R q r : Qeq_bool q r = true -> Q2R q = Q2R r.
Proof. intros H. apply Qeq_eqR, Qeq_bool_eq, H. Qed.

(* a rational equal (as a rational) to the integer z is recognised as an
   integer and has that value, whatever its representation *)
Lemma Qint_of_Z q z :
  Qeq_bool q (inject_Z z) = true -> Qis_int q = true /\ Qfloor' q = z.
Proof.
  intros H. apply Qeq_bool_eq in H. unfold Qeq in H. simpl in H.
  rewrite Z.mul_1_r in H. unfold Qis_int, Qfloor'. rewrite H. split.
  - rewrite Z_mod_mult. reflexivity.
  - apply Z.div_mul. discriminate.
Qed.

Lemma Qis_int_minus1 q : Qis_int (q - 1) = Qis_int q.
Proof.
  destruct q as [n d]. unfold Qis_int, Qminus, Qplus, Qopp. simpl.
  rewrite Z.mul_1_r, Pos.mul_1_r.
  replace (n + Z.neg d)%Z with (n + (-1) * Z.pos d)%Z by lia.
  now rewrite Z_mod_plus_full.
Qed.

Lemma Qfloor_minus1 q : Qfloor' (q - 1) = (Qfloor' q - 1)%Z.
Proof.
  destruct q as [n d]. unfold Qfloor', Qminus, Qplus, Qopp. simpl.
  rewrite Z.mul_1_r, Pos.mul_1_r.
  replace (n + Z.neg d)%Z with (n + (-1) * Z.pos d)%Z by lia.
  rewrite Z.div_add by discriminate. lia.
Qed.

Lemma Qint_Q2R q : Qis_int q = true -> Q2R q = IZR (Qfloor' q).
Proof.
  destruct q as [n d]. unfold Qis_int, Qfloor', Q2R. simpl. intros H.
  apply Z.eqb_eq in H.
  assert (Hn : n = (Z.pos d * (n / Z.pos d))%Z).
  { rewrite (Z_div_mod_eq_full n (Z.pos d)) at 1. lia. }
  rewrite Hn at 1. rewrite mult_IZR. field.
  apply not_0_IZR. discriminate.
Qed.

(* an integer-valued rational with floor z is equal to z *)
Lemma Qint_floor_eq q z :
  Qis_int q = true -> Qfloor' q = z -> Qeq_bool q (inject_Z z) = true.
Proof.
  destruct q as [n d]. unfold Qis_int, Qfloor'. simpl. intros H Hz.
  apply Z.eqb_eq in H. apply Qeq_eq_bool. unfold Qeq. simpl.
  rewrite Z.mul_1_r, <- Hz.
  rewrite (Z_div_mod_eq_full n (Z.pos d)) at 1. lia.
Qed.

Lemma powQ_exp0 a q : Qeq_bool q 0 = true -> powQ a q = 1.
Proof.
  intros H. destruct (Qint_of_Z q 0 H) as [Hi Hf].
  unfold powQ. rewrite Hi, Hf. reflexivity.
Qed.

Lemma powQ_exp1 a q : Qeq_bool q 1 = true -> powQ a q = a.
Proof.
  intros H. destruct (Qint_of_Z q 1 H) as [Hi Hf].
  unfold powQ. rewrite Hi, Hf. simpl. ring.
Qed.

Lemma powQ_exp2 a q : Qeq_bool q 2 = true -> powQ a q = a * a.
Proof.
  intros H. destruct (Qint_of_Z q 2 H) as [Hi Hf].
  unfold powQ. rewrite Hi, Hf. simpl. ring.
Qed.

Lemma powQ_base1 q : powQ 1 q = 1.
Proof.
  unfold powQ. destruct (Qis_int q).
  - apply powerRZ_R1.
  - unfold Rpower. rewrite ln_1, Rmult_0_r. apply exp_0.
Qed.

Lemma powQ_base0 q : Qis_int q = true -> (0 < Qfloor' q)%Z -> powQ 0 q = 0.
Proof.
  intros Hi Hf. unfold powQ. rewrite Hi.
  destruct (Qfloor' q) as [|p|p]; try lia.
  simpl. apply pow_i. lia.
Qed.

(* ------------------------------------------------------------------ *)
(** * Soundness of the simplifiers with respect to [evalR] *)

Section Simplifiers.
  Variables rho penv : env.
  Notation ev := (evalR rho penv).

  Lemma ev_c0 : ev c0 = 0.  Proof. apply Q2R_0'. Qed.
  Lemma ev_c1 : ev c1 = 1.  Proof. apply Q2R_1'. Qed.
  Lemma ev_c2 : ev c2 = 2.  Proof. apply Q2R_2'. Qed.

  Lemma is_zero_ev e : is_zero e = true -> ev e = 0.
  Proof.
    destruct e; simpl; try discriminate. intros H.
    rewrite (Qeq_bool_Q2R _ _ H). apply Q2R_0'.
  Qed.

  Lemma is_one_ev e : is_one e = true -> ev e = 1.
  Proof.
    destruct e; simpl; try discriminate. intros H.
    rewrite (Qeq_bool_Q2R _ _ H). apply Q2R_1'.
  Qed.

  Lemma evalR_pow_const l q : ev (Bin Pow l (Const q)) = powQ (ev l) q.
  Proof. reflexivity. Qed.

  Lemma evalR_pow_gen l r : is_const r = false -> ev (Bin Pow l r) = Rpower (ev l) (ev r).
  Proof. destruct r; simpl; intros H; try discriminate; reflexivity. Qed.

  Lemma s_add_ev l r : ev (s_add l r) = ev l + ev r.
  Proof.
    unfold s_add. destruct (is_zero l) eqn:El.
    - rewrite (is_zero_ev _ El). ring.
    - destruct (is_zero r) eqn:Er.
      + rewrite (is_zero_ev _ Er). ring.
      + reflexivity.
  Qed.

  Lemma s_neg_ev e : ev (s_neg e) = - ev e.
  Proof.
    unfold s_neg. destruct (is_zero e) eqn:Ee.
    - rewrite (is_zero_ev _ Ee), ev_c0. ring.
    - destruct e; try reflexivity. destruct o; try reflexivity.
      simpl. ring.
  Qed.

  Lemma s_sub_ev l r : ev (s_sub l r) = ev l - ev r.
  Proof.
    unfold s_sub. destruct (is_zero r) eqn:Er.
    - rewrite (is_zero_ev _ Er). ring.
    - destruct (is_zero l) eqn:El.
      + rewrite s_neg_ev, (is_zero_ev _ El). ring.
      + reflexivity.
  Qed.

  Lemma s_mul_ev l r : ev (s_mul l r) = ev l * ev r.
  Proof.
    unfold s_mul. destruct (is_zero l) eqn:El; simpl.
    - rewrite (is_zero_ev _ El), Q2R_0'. ring.
    - destruct (is_zero r) eqn:Er; simpl.
      + rewrite (is_zero_ev _ Er), Q2R_0'. ring.
      + destruct (is_one l) eqn:Ol.
        * rewrite (is_one_ev _ Ol). ring.
        * destruct (is_one r) eqn:Or.
          -- rewrite (is_one_ev _ Or). ring.
          -- reflexivity.
  Qed.

  (* unconditional: 0 / r = 0 and l / 1 = l in R (division is total) *)
  Lemma s_div_ev l r : ev (s_div l r) = ev l / ev r.
  Proof.
    unfold s_div. destruct (is_zero l) eqn:El.
    - rewrite (is_zero_ev _ El), ev_c0. unfold Rdiv. ring.
    - destruct (is_one r) eqn:Or.
      + rewrite (is_one_ev _ Or). unfold Rdiv. rewrite Rinv_1. ring.
      + reflexivity.
  Qed.

  (* [s_pow b (Const q)] denotes b^q, provided that when the base is the literal
     0 the exponent is a positive integer (0^q = 0 only then; for the other
     literal-0 cases evalR gives 0^0 = 1, 0^(-k) = /0, 0^(non-integer) = 1). *)
  Lemma s_pow_ev b q :
    (is_zero b = true -> Qeq_bool q 0 = false -> Qeq_bool q 1 = false ->
       Qis_int q = true /\ (0 < Qfloor' q)%Z) ->
    ev (s_pow b (Const q)) = powQ (ev b) q.
  Proof.
    intros Hside. unfold s_pow. simpl is_zero at 1. simpl is_one at 1.
    destruct (Qeq_bool q 0) eqn:E0.
    - rewrite ev_c1. symmetry. now apply powQ_exp0.
    - destruct (Qeq_bool q 1) eqn:E1.
      + symmetry. now apply powQ_exp1.
      + destruct (is_zero b) eqn:Eb.
        * destruct (Hside eq_refl eq_refl eq_refl) as [Hi Hf].
          rewrite (is_zero_ev _ Eb), ev_c0. symmetry. now apply powQ_base0.
        * destruct (is_one b) eqn:Ob.
          -- rewrite (is_one_ev _ Ob), ev_c1. symmetry. apply powQ_base1.
          -- reflexivity.
  Qed.
End Simplifiers.

(* ------------------------------------------------------------------ *)
(** * Derivatives of the elementary functions *)

Lemma is_derive_eq (f : R -> R) (x l l' : R) : is_derive f x l -> l = l' -> is_derive f x l'.
Proof. intros H <-; exact H. Qed.

Lemma is_derive_comp_R (f g : R -> R) (x df dg : R) :
  is_derive f (g x) df -> is_derive g x dg -> is_derive (fun t => f (g t)) x (dg * df).
Proof. intros Hf Hg. exact (is_derive_comp f g x df dg Hf Hg). Qed.

(* derivative of each elementary function, written the way Autodiff.v writes it *)
Definition uop_d (o : uop) (a : R) : R :=
  match o with
  | Neg => -1
  | Abs => a / Rabs a
  | Sin => cos a
  | Cos => - sin a
  | Tan => 1 / (cos a * cos a)
  | Exp => exp a
  | Log => 1 / a
  | Log2 => 1 / (a * ln 2)
  | Log10 => 1 / (a * ln 10)
  | Sqrt => 1 / (2 * sqrt a)
  | Tanh => 1 - tanh a * tanh a
  | Sinh => cosh a
  | Cosh => sinh a
  | Asin => 1 / sqrt (1 - a * a)
  | Acos => - (1 / sqrt (1 - a * a))
  | Atan => 1 / (1 + a * a)
  | Asinh => 1 / sqrt (1 + a * a)
  | Acosh => 1 / sqrt (a * a - 1)
  | Atanh => 1 / (1 - a * a)
  end.

Lemma cosh_neq0 a : cosh a <> 0.
Proof. unfold cosh. generalize (exp_pos a) (exp_pos (- a)). lra. Qed.

Lemma sign_div_abs a : a <> 0 -> sign a = a / Rabs a.
Proof.
  intros H. destruct (Rlt_dec 0 a) as [Hp|Hn].
  - rewrite sign_eq_1, Rabs_pos_eq by lra. field. lra.
  - rewrite sign_eq_m1, Rabs_left by lra. field. lra.
Qed.

Lemma ln_2_pos' : 0 < ln 2.
Proof. rewrite <- ln_1. apply ln_increasing; lra. Qed.
Lemma ln_10_pos' : 0 < ln 10.
Proof. rewrite <- ln_1. apply ln_increasing; lra. Qed.

Lemma uop_derive o a : uop_reg o a -> is_derive (uopR o) a (uop_d o a).
Proof.
  destruct o; unfold uopR, uop_reg, uop_d; intros H.
  - auto_derive; [exact I|ring].
  - auto_derive; [exact H|]. rewrite (sign_div_abs a H). ring.
  - auto_derive; [exact I|ring].
  - auto_derive; [exact I|ring].
  - unfold tan. auto_derive; [exact H|].
    assert (Hs : sin a * sin a = 1 - cos a * cos a)
      by (generalize (sin2_cos2 a); unfold Rsqr; lra).
    field_simplify_eq; [|exact H]. nra.
  - auto_derive; [exact I|ring].
  - auto_derive; [exact H|]. field. lra.
  - auto_derive; [exact H|]. field. split; [apply Rgt_not_eq, ln_2_pos'|lra].
  - auto_derive; [exact H|]. field. split; [apply Rgt_not_eq, ln_10_pos'|lra].
  - auto_derive; [exact H|]. field. apply Rgt_not_eq, sqrt_lt_R0, H.
  - unfold tanh. auto_derive; [apply cosh_neq0|]. field. apply cosh_neq0.
  - auto_derive; [exact I|ring].
  - auto_derive; [exact I|ring].
  - apply is_derive_Reals.
    replace (1 - a * a) with (1 - a²) by (unfold Rsqr; ring).
    rewrite <- (derive_pt_asin a H). apply (derive_pt_eq_1 asin a _ (derivable_pt_asin a H)). reflexivity.
  - apply is_derive_Reals.
    replace (- (1 / sqrt (1 - a * a))) with (-1 / sqrt (1 - a²)) by (unfold Rsqr, Rdiv; ring).
    rewrite <- (derive_pt_acos a H). apply (derive_pt_eq_1 acos a _ (derivable_pt_acos a H)). reflexivity.
  - auto_derive; [exact I|]. unfold Rsqr. field. nra.
  - apply is_derive_Reals. replace (1 / sqrt (1 + a * a)) with (/ sqrt (a ^ 2 + 1)).
    + apply derivable_pt_lim_arcsinh.
    + replace (a ^ 2 + 1) with (1 + a * a) by ring. field.
      apply Rgt_not_eq, sqrt_lt_R0. nra.
  - assert (H1 : 0 < a * a + - (1)) by nra.
    assert (Hs := sqrt_lt_R0 _ H1).
    auto_derive.
    + repeat split; [exact H1|lra].
    + replace (a * a - 1) with (a * a + - (1)) by ring. field. lra.
  - auto_derive.
    + repeat split; [lra|]. apply Rdiv_lt_0_compat; lra.
    + field. repeat split; nra.
Qed.
