(* HarnessI.v — numeric channel of the correspondence check: a float observed in
   the implementation (an exact dyadic rational) is checked against the interval
   enclosure of the real-number semantics, computed by vm_compute.  The interval
   evaluation runs at LOW precision ([num_prec] bits, outward rounding at every
   operation), so that it also encloses a binary64 computation following the
   same operation tree (each float operation is within 2^-53 of the exact one,
   well inside one outward rounding at [num_prec] bits).  Soundness of the
   enclosure of the real value is SemI.check_sound.  Verdicts:
     0 = observed value lies in the enclosure, 1 = it does not (bounded interval),
     2 = undecided (unbounded / NaN interval: the point is at or near a singularity). *)
From Coq Require Import String List QArith ZArith Bool.
From Optyx Require Import Syntax SemI.
Import ListNotations.
Close Scope Q_scope.

Definition num_prec : I.precision := prec_of 40.

Definition enclosure (e : expr) (pts ppts : list (string * Q)) : I.type :=
  widen num_prec (evalI num_prec (env_of_points num_prec pts) (env_of_points num_prec ppts) e) (-34) (-120).

Definition num_check (e : expr) (pts ppts : list (string * Q)) (obs : Q) : nat :=
  let xi := enclosure e pts ppts in
  if is_bounded xi then (if in_interval xi obs then 0 else 1)%nat else 2%nat.

(* indices of failing (verdict 1) and undecided (verdict 2) cases *)
Definition classify {A} (f : A -> nat) (l : list A) : list nat * list nat :=
  (fix go (l : list A) (i : nat) : list nat * list nat :=
     match l with
     | [] => ([], [])
     | a :: r =>
         let '(fs, us) := go r (S i) in
         match f a with
         | O => (fs, us)
         | S O => (i :: fs, us)
         | _ => (fs, i :: us)
         end
     end) l 0%nat.

(* worst verdict over a list of observations of the same quantity *)
Definition worst (vs : list nat) : nat :=
  if existsb (Nat.eqb 1) vs then 1%nat else if existsb (Nat.eqb 2) vs then 2%nat else 0%nat.
