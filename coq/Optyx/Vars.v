(* Vars.v — variable discovery and ordering.
   Mirrors src/optyx/core/expressions.py (get_variables on every node kind,
   Variable._sort_key), src/optyx/problem.py (_natural_sort_key,
   _variable_order_key, _try_get_single_vector_source, Problem.variables,
   get_bounds).  Variables are names (optyx compares and hashes them by name).
   The natural key is modelled for ASCII names: text runs and digit runs
   alternate exactly as re.split(r"(\d+)", name) produces them.
   No proofs here (see VarsProofs.v). *)
From Coq Require Import String Ascii List Arith Bool NArith QArith.
Close Scope Q_scope.
From Optyx Require Import Syntax Occ.
Import ListNotations.
Open Scope nat_scope.

(* ---- natural sort key ---- *)
Inductive part := PText (s : string) | PNum (n : N).

Definition is_digit (c : ascii) : bool :=
  let n := nat_of_ascii c in (48 <=? n) && (n <=? 57).
Definition digit_val (c : ascii) : N := N.of_nat (nat_of_ascii c - 48).

(* scan: [txt] is the current text run reversed-free (appended at the end),
   [num] the current digit run if we are inside one *)
Fixpoint split_from (s : string) (txt : string) (num : option N) : list part :=
  match s with
  | EmptyString =>
      match num with
      | None => [PText txt]
      | Some n => [PNum n; PText ""]
      end
  | String c r =>
      if is_digit c then
        match num with
        | None => PText txt :: split_from r "" (Some (digit_val c))
        | Some n => split_from r "" (Some (n * 10 + digit_val c)%N)
        end
      else
        match num with
        | None => split_from r (txt ++ String c "") None
        | Some n => PNum n :: split_from r (String c "") None
        end
  end.

Definition sort_key (name : string) : list part := split_from name "" None.

Definition part_cmp (a b : part) : comparison :=
  match a, b with
  | PText x, PText y => String.compare x y
  | PNum x, PNum y => N.compare x y
  | PText _, PNum _ => Lt      (* never compared by Python: positions align *)
  | PNum _, PText _ => Gt
  end.

(* Python tuple comparison: lexicographic, a proper prefix is smaller *)
Fixpoint key_cmp (a b : list part) : comparison :=
  match a, b with
  | [], [] => Eq
  | [], _ :: _ => Lt
  | _ :: _, [] => Gt
  | x :: a', y :: b' => match part_cmp x y with Eq => key_cmp a' b' | c => c end
  end.

(* _variable_order_key: (natural key, raw name) *)
Definition var_cmp (x y : string) : comparison :=
  match key_cmp (sort_key x) (sort_key y) with
  | Eq => String.compare x y
  | c => c
  end.

Definition var_leb (x y : string) : bool :=
  match var_cmp x y with Gt => false | _ => true end.

(* sorted(...): any stable comparison sort; insertion sort is the executable model *)
Fixpoint insert (x : string) (l : list string) : list string :=
  match l with
  | [] => [x]
  | y :: r => if var_leb x y then x :: y :: r else y :: insert x r
  end.
Fixpoint sort_vars (l : list string) : list string :=
  match l with
  | [] => []
  | x :: r => insert x (sort_vars r)
  end.

(* a Python set of Variables: one entry per name *)
Fixpoint dedup (l : list string) : list string :=
  match l with
  | [] => []
  | x :: r => if existsb (String.eqb x) r then dedup r else x :: dedup r
  end.

(* expr.get_variables() *)
Definition get_vars (e : expr) : list string := dedup (vars e).

(* ---- single-vector shortcut (_try_get_single_vector_source) ---- *)
Inductive src := SNone | SOne (vid : N) (xs : list string) | SFail.

Definition merge (a b : src) : src :=
  match a, b with
  | SFail, _ | _, SFail => SFail
  | SNone, x | x, SNone => x
  | SOne i xs, SOne j _ => if N.eqb i j then SOne i xs else SFail
  end.

Fixpoint source (e : expr) {struct e} : src :=
  match e with
  | Const _ | Param _ => SNone
  | VSum vid xs => SOne vid xs
  | LinComb _ (KVar vid) es => SOne vid (vec_names es)
  | LinComb _ KExpr _ => SFail
  | VPowSum vid xs _ | VUnSum vid xs _ => SOne vid xs
  | Dot (KVar i) ls (KVar j) _ => if N.eqb i j then SOne i (vec_names ls) else SFail
  | Dot _ _ _ _ => SFail
  | VExprSum es => fold_right (fun e acc => merge (source e) acc) SNone es
  | Bin _ l r => merge (source l) (source r)
  | Un _ a => source a
  | Var _ | L2n _ _ | L1n _ _ | QForm _ _ _ | MSum _ _ | Frob _ => SFail
  end.

(* Problem.variables: shortcut when objective and every constraint draw on one
   and the same VectorVariable object; general path otherwise *)
Definition general_path (obj : option expr) (cons : list expr) : list string :=
  sort_vars (dedup ((match obj with Some o => vars o | None => [] end) ++ flat_map vars cons)).

Definition shortcut (obj : option expr) (cons : list expr) : option (list string) :=
  match obj with
  | Some o =>
      match source o with
      | SOne vid xs =>
          if forallb (fun c => match source c with SOne j _ => N.eqb vid j | _ => false end) cons
          then Some (sort_vars (dedup xs))
          else None
      | _ => None
      end
  | None => None
  end.

Definition problem_variables (obj : option expr) (cons : list expr) : list string :=
  match shortcut obj cons with
  | Some vs => vs
  | None => general_path obj cons
  end.

(* ---- bounds and domains: attributes of the variables, read at call time ---- *)
Inductive domain := Continuous | Integer | Binary.
Record vattr := { lb : option Q; ub : option Q; vdom : domain }.
Definition store := string -> vattr.

Definition get_bounds (st : store) (V : list string) : list (option Q * option Q) :=
  map (fun v => (lb (st v), ub (st v))) V.
