(* Compile.v — the closure compiler.
   Mirrors src/optyx/core/compiler.py: compile_expression (name -> index map,
   last occurrence wins as in a dict comprehension), _build_evaluator
   (recursive), _build_vector_evaluator, _build_evaluator_iterative (explicit
   stack, via Machine), _estimate_tree_depth (left spine), _compile_cached's
   depth switch.  A closure is a term of [clo]; [run] is what calling the
   Python closure on an array computes, over the reals (NumPy primitives are
   read as the real functions they implement - trusted, see DESIGN.md).
   Parameters are read at CALL time ([run] takes penv), not at build time.
   No proofs here (see CompileProofs.v). *)
From Coq Require Import String List Arith Bool QArith ZArith Reals Qreals.
From Optyx Require Import Syntax Occ SemR Machine.
Import ListNotations.
Close Scope Q_scope.
Close Scope R_scope.
Open Scope nat_scope.

(* a vector evaluator: x[idx] or [f(x) for f in fns] *)
Inductive clo : Type :=
| CConst (q : Q)                                  (* lambda x: value *)
| CParam (p : string)                             (* lambda x, p=param: p.value *)
| CIdx (i : nat)                                  (* lambda x, i=idx: x[i] *)
| CBin (o : bop) (l r : clo)                      (* lf(x) op rf(x) *)
| CUn (o : uop) (a : clo)                         (* np_f(f(x)) *)
| CSumIdx (idx : list nat)                        (* np.sum(x[idx]) *)
| CDotIdx (cs : list Q) (idx : list nat)          (* np.dot(c, x[idx]) *)
| CDotFns (cs : list Q) (fs : list clo)           (* np.dot(c, [f(x) for f in fns]) *)
| CSumFns (fs : list clo)                         (* float(sum(f(x) for f in fns)) *)
| CDotVec (li : option (list nat)) (lf : list clo) (ri : option (list nat)) (rf : list clo)
| CNorm2 (vi : option (list nat)) (vf : list clo) (* np.linalg.norm(vf(x)) *)
| CNorm1 (vi : option (list nat)) (vf : list clo) (* np.sum(np.abs(vf(x))) *)
| CQForm (vi : option (list nat)) (vf : list clo) (m : list (list Q))
| CPowSumIdx (idx : list nat) (k : Q)             (* float(np.sum(x[idx] ** k)) *)
| CUnSumIdx (idx : list nat) (o : uop)            (* float(np.sum(f(x[idx]))) *)
| CFrobFns (fs : list clo).                       (* float(np.sqrt(sum(f(x)**2))) *)

Section Run.
  Variable x : list R.
  Variable penv : string -> R.
  Local Open Scope R_scope.

  Definition xat (i : nat) : R := nth i x 0.

  Fixpoint run (c : clo) {struct c} : R :=
    let vec (vi : option (list nat)) (vf : list clo) : list R :=
      match vi with Some idx => map xat idx | None => map run vf end in
    match c with
    | CConst q => Q2R q
    | CParam p => penv p
    | CIdx i => xat i
    | CBin Pow l (CConst q) => powQ (run l) q
    | CBin o l r => bopR o (run l) (run r)
    | CUn o a => uopR o (run a)
    | CSumIdx idx => sumR (map xat idx)
    | CDotIdx cs idx => dotR (map Q2R cs) (map xat idx)
    | CDotFns cs fs => dotR (map Q2R cs) (map run fs)
    | CSumFns fs => sumR (map run fs)
    | CDotVec li lf ri rf => dotR (vec li lf) (vec ri rf)
    | CNorm2 vi vf => sqrt (sumR (map Rsqr (vec vi vf)))
    | CNorm1 vi vf => sumR (map Rabs (vec vi vf))
    | CQForm vi vf m =>
        let xs := vec vi vf in dotR xs (map (fun row => matvec_row row xs) m)
    | CPowSumIdx idx k => sumR (map (fun i => powQ (xat i) k) idx)
    | CUnSumIdx idx o => sumR (map (fun i => uopR o (xat i)) idx)
    | CFrobFns fs => sqrt (sumR (map (fun f => Rsqr (run f)) fs))
    end.
End Run.

(* var_indices = {var.name: i for i, var in enumerate(variables)}: last wins *)
Fixpoint index_from (V : list string) (x : string) (i : nat) (found : option nat) : option nat :=
  match V with
  | [] => found
  | v :: V' => index_from V' x (S i) (if String.eqb v x then Some i else found)
  end.
Definition index (V : list string) (x : string) : option nat := index_from V x 0 None.

Fixpoint all_some {A} (l : list (option A)) : option (list A) :=
  match l with
  | [] => Some []
  | Some a :: r => match all_some r with Some r' => Some (a :: r') | None => None end
  | None :: _ => None
  end.

Definition indices (V : list string) (xs : list string) : option (list nat) :=
  all_some (map (index V) xs).

Section Build.
  Variable V : list string.

  Definition build_bin (o : bop) (l r : expr) (cl cr : option clo) : option clo :=
    match cl, cr with Some a, Some b => Some (CBin o a b) | _, _ => None end.
  Definition build_un (o : uop) (a : expr) (ca : option clo) : option clo :=
    match ca with Some c => Some (CUn o c) | None => None end.

  (* _build_evaluator; KeyError (variable not in the list) = None *)
  Fixpoint build (e : expr) {struct e} : option clo :=
    let bvec (k : vkind) (es : list expr) : option (option (list nat) * list clo) :=
      match k with
      | KVar _ => match indices V (vec_names es) with
                  | Some idx => Some (Some idx, [])
                  | None => None end
      | KExpr => match all_some (map build es) with
                 | Some fs => Some (None, fs)
                 | None => None end
      end in
    match e with
    | Const q => Some (CConst q)
    | Param p => Some (CParam p)
    | Var x => match index V x with Some i => Some (CIdx i) | None => None end
    | Bin o l r => build_bin o l r (build l) (build r)
    | Un o a => build_un o a (build a)
    | VSum _ xs => match indices V xs with Some idx => Some (CSumIdx idx) | None => None end
    | LinComb cs k es =>
        match k with
        | KVar _ => match indices V (vec_names es) with
                    | Some idx => Some (CDotIdx cs idx) | None => None end
        | KExpr => match all_some (map build es) with
                   | Some fs => Some (CDotFns cs fs) | None => None end
        end
    | VExprSum es =>
        match all_some (map build es) with Some fs => Some (CSumFns fs) | None => None end
    | Dot kl ls kr rs =>
        match bvec kl ls, bvec kr rs with
        | Some (li, lf), Some (ri, rf) => Some (CDotVec li lf ri rf)
        | _, _ => None
        end
    | L2n k es => match bvec k es with Some (vi, vf) => Some (CNorm2 vi vf) | None => None end
    | L1n k es => match bvec k es with Some (vi, vf) => Some (CNorm1 vi vf) | None => None end
    | QForm k es m => match bvec k es with Some (vi, vf) => Some (CQForm vi vf m) | None => None end
    | VPowSum _ xs k => match indices V xs with Some idx => Some (CPowSumIdx idx k) | None => None end
    | VUnSum _ xs o => match indices V xs with Some idx => Some (CUnSumIdx idx o) | None => None end
    | MSum _ es =>
        match all_some (map build es) with Some fs => Some (CSumFns fs) | None => None end
    | Frob es =>
        match all_some (map build es) with Some fs => Some (CFrobFns fs) | None => None end
    end.

  (* _build_evaluator_iterative: flat nodes by the node builders *)
  Definition build_iter (e : expr) : option (option clo) :=
    fold_iter (option clo) build build_bin build_un e.

  (* compiler.py _estimate_tree_depth: left spine through BinaryOp / UnaryOp *)
  Fixpoint depth_left (e : expr) : nat :=
    match e with
    | Bin _ l _ => S (depth_left l)
    | Un _ a => S (depth_left a)
    | _ => 0
    end.

  (* _compile_cached's body with switch threshold th *)
  Definition compile (th : nat) (e : expr) : option clo :=
    if th <=? depth_left e
    then match build_iter e with Some c => c | None => None end
    else build e.
End Build.

