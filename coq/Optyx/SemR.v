(* SemR.v — the specification: what a formula written through the API denotes
   over the real numbers.  [evalR env penv e] is the reading a user gives to the
   expression; [dom] delimits "every point of its domain", [regular] "every
   regular point" (where every elementary function involved is differentiable).
   This file is part of the trusted base in the sense that "the property" means
   "the property with respect to evalR".  No proofs here. *)
From Coq Require Import Reals QArith Qreals String List Bool ZArith.
From Optyx Require Import Syntax.
Import ListNotations.
Close Scope Q_scope.
Open Scope R_scope.

Definition env := string -> R.

Definition sumR (l : list R) : R := fold_right Rplus 0 l.

(* element-wise product sum of two lists (zip semantics, like Python's zip) *)
Fixpoint dotR (a b : list R) : R :=
  match a, b with
  | x :: a', y :: b' => x * y + dotR a' b'
  | _, _ => 0
  end.

(* a ** q for a literal exponent q: repeated multiplication / reciprocal when q
   is an integer, exp(q ln a) otherwise *)
Definition powQ (a : R) (q : Q) : R :=
  if Qis_int q then powerRZ a (Qfloor' q) else Rpower a (Q2R q).

Definition powQ_dom (a : R) (q : Q) : Prop :=
  if Qis_int q then (0 <= Qfloor' q)%Z \/ a <> 0 else 0 < a.

(* differentiability of a |-> a ** q *)
Definition powQ_reg (a : R) (q : Q) : Prop :=
  if Qis_int q then (0 <= Qfloor' q)%Z \/ a <> 0 else 0 < a.

Definition uopR (o : uop) (a : R) : R :=
  match o with
  | Neg => - a
  | Abs => Rabs a
  | Sin => sin a
  | Cos => cos a
  | Tan => tan a
  | Exp => exp a
  | Log => ln a
  | Log2 => ln a / ln 2
  | Log10 => ln a / ln 10
  | Sqrt => sqrt a
  | Tanh => tanh a
  | Sinh => sinh a
  | Cosh => cosh a
  | Asin => asin a
  | Acos => acos a
  | Atan => atan a
  | Asinh => arcsinh a
  | Acosh => ln (a + sqrt (a * a - 1))
  | Atanh => / 2 * ln ((1 + a) / (1 - a))
  end.

Definition uop_dom (o : uop) (a : R) : Prop :=
  match o with
  | Log | Log2 | Log10 => 0 < a
  | Sqrt => 0 <= a
  | Tan => cos a <> 0
  | Asin | Acos => -1 <= a <= 1
  | Acosh => 1 <= a
  | Atanh => -1 < a < 1
  | _ => True
  end.

(* where the elementary function is differentiable *)
Definition uop_reg (o : uop) (a : R) : Prop :=
  match o with
  | Abs => a <> 0
  | Log | Log2 | Log10 => 0 < a
  | Sqrt => 0 < a
  | Tan => cos a <> 0
  | Asin | Acos => -1 < a < 1
  | Acosh => 1 < a
  | Atanh => -1 < a < 1
  | _ => True
  end.

Definition bopR (o : bop) (a b : R) : R :=
  match o with
  | Add => a + b
  | Sub => a - b
  | Mul => a * b
  | Div => a / b
  | Pow => Rpower a b
  end.

Definition matvec_row (row : list Q) (xs : list R) : R := dotR (map Q2R row) xs.

Fixpoint evalR (env penv : env) (e : expr) {struct e} : R :=
  match e with
  | Const q => Q2R q
  | Var x => env x
  | Param p => penv p
  | Bin Pow l (Const q) => powQ (evalR env penv l) q
  | Bin o l r => bopR o (evalR env penv l) (evalR env penv r)
  | Un o a => uopR o (evalR env penv a)
  | VSum _ xs => sumR (map env xs)
  | LinComb cs _ es => dotR (map Q2R cs) (map (evalR env penv) es)
  | Dot _ ls _ rs => dotR (map (evalR env penv) ls) (map (evalR env penv) rs)
  | L2n _ es => sqrt (sumR (map (fun e => Rsqr (evalR env penv e)) es))
  | L1n _ es => sumR (map (fun e => Rabs (evalR env penv e)) es)
  | QForm _ es m =>
      let xs := map (evalR env penv) es in
      dotR xs (map (fun row => matvec_row row xs) m)
  | VPowSum _ xs p => sumR (map (fun x => powQ (env x) p) xs)
  | VUnSum _ xs o => sumR (map (fun x => uopR o (env x)) xs)
  | VExprSum es => sumR (map (evalR env penv) es)
  | MSum _ es => sumR (map (evalR env penv) es)
  | Frob es => sqrt (sumR (map (fun e => Rsqr (evalR env penv e)) es))
  end.

(* every point of the domain *)
Fixpoint dom (env penv : env) (e : expr) {struct e} : Prop :=
  match e with
  | Const _ | Var _ | Param _ => True
  | Bin o l r =>
      dom env penv l /\ dom env penv r /\
      match o with
      | Div => evalR env penv r <> 0
      | Pow => match r with
               | Const q => powQ_dom (evalR env penv l) q
               | _ => 0 < evalR env penv l
               end
      | _ => True
      end
  | Un o a => dom env penv a /\ uop_dom o (evalR env penv a)
  | VSum _ _ => True
  | LinComb _ _ es | L2n _ es | L1n _ es | QForm _ es _ | VExprSum es | MSum _ es | Frob es =>
      fold_right (fun e P => dom env penv e /\ P) True es
  | Dot _ ls _ rs =>
      fold_right (fun e P => dom env penv e /\ P) True ls /\
      fold_right (fun e P => dom env penv e /\ P) True rs
  | VPowSum _ xs p => fold_right (fun x P => powQ_dom (env x) p /\ P) True xs
  | VUnSum _ xs o => fold_right (fun x P => uop_dom o (env x) /\ P) True xs
  end.

(* every regular point: all the elementary functions involved are differentiable *)
Fixpoint regular (env penv : env) (e : expr) {struct e} : Prop :=
  match e with
  | Const _ | Var _ | Param _ => True
  | Bin o l r =>
      regular env penv l /\ regular env penv r /\
      match o with
      | Div => evalR env penv r <> 0
      | Pow => match r with
               | Const q => powQ_reg (evalR env penv l) q
               | _ => 0 < evalR env penv l
               end
      | _ => True
      end
  | Un o a => regular env penv a /\ uop_reg o (evalR env penv a)
  | VSum _ _ => True
  | LinComb _ _ es | QForm _ es _ | VExprSum es | MSum _ es =>
      fold_right (fun e P => regular env penv e /\ P) True es
  | L2n _ es | Frob es =>
      fold_right (fun e P => regular env penv e /\ P) True es /\
      0 < sumR (map (fun e => Rsqr (evalR env penv e)) es)
  | L1n _ es =>
      fold_right (fun e P => (regular env penv e /\ evalR env penv e <> 0) /\ P) True es
  | Dot _ ls _ rs =>
      fold_right (fun e P => regular env penv e /\ P) True ls /\
      fold_right (fun e P => regular env penv e /\ P) True rs
  | VPowSum _ xs p => fold_right (fun x P => powQ_reg (env x) p /\ P) True xs
  | VUnSum _ xs o => fold_right (fun x P => uop_reg o (env x) /\ P) True xs
  end.

(* one-variable update of an environment *)
Definition upd (rho : env) (v : string) (t : R) : env :=
  fun y => if String.eqb y v then t else rho y.

(* environment induced by an ordered variable list and a point *)
Fixpoint env_of (V : list string) (x : list R) : env :=
  match V, x with
  | v :: V', t :: x' => fun y => if String.eqb y v then t else env_of V' x' y
  | _, _ => fun _ => 0
  end.
