(* Autodiff.v — symbolic differentiation.
   Mirrors src/optyx/core/autodiff.py:
     _is_zero/_is_one, _simplify_add/sub/mul/div/neg/pow,
     _gradient_cached (binary rules), _unary_gradient (19 unary rules),
     the registered rules of _register_vector_gradient_rules
       (MatrixSum, FrobeniusNorm, LinearCombination, VectorSum,
        VectorExpressionSum, DotProduct, L2Norm, L1Norm, QuadraticForm,
        VectorPowerSum, VectorUnarySum),
     _gradient_iterative (via Machine), gradient (dispatch),
     compute_hessian.
   [ln2c]/[ln10c] are the doubles np.log(2.0), np.log(10.0) the code embeds
   (regenerated from the source's runtime by tools/translate.py into GenTables.v).
   No proofs here (see AutodiffProofs.v). *)
From Coq Require Import String List Arith Bool QArith ZArith.
From Optyx Require Import Syntax Machine.
Import ListNotations.
Close Scope Q_scope.

Definition c0 : expr := Const 0%Q.
Definition c1 : expr := Const 1%Q.
Definition c2 : expr := Const 2%Q.

(* ---- simplifiers (autodiff.py:1041-1106) ---- *)
Definition s_add (l r : expr) : expr :=
  if is_zero l then r else if is_zero r then l else Bin Add l r.

Definition s_neg (e : expr) : expr :=
  if is_zero e then c0 else match e with Un Neg a => a | _ => Un Neg e end.

Definition s_sub (l r : expr) : expr :=
  if is_zero r then l else if is_zero l then s_neg r else Bin Sub l r.

Definition s_mul (l r : expr) : expr :=
  if is_zero l || is_zero r then c0
  else if is_one l then r else if is_one r then l else Bin Mul l r.

Definition s_div (l r : expr) : expr :=
  if is_zero l then c0 else if is_one r then l else Bin Div l r.

Definition s_pow (b e : expr) : expr :=
  if is_zero e then c1 else if is_one e then b
  else if is_zero b then c0 else if is_one b then c1 else Bin Pow b e.

Section Grad.
  Variable ln2c ln10c : Q.       (* float values of np.log(2.0), np.log(10.0) *)
  Variable v : string.           (* wrt.name *)

  (* ---- _unary_gradient: e = Un o a, da = derivative of a ---- *)
  Definition unary_grad (o : uop) (a : expr) (da : expr) : expr :=
    let e := Un o a in
    match o with
    | Neg => s_neg da
    | Abs => s_mul (s_div a e) da
    | Sin => s_mul (Un Cos a) da
    | Cos => s_mul (s_neg (Un Sin a)) da
    | Tan => s_mul (s_div c1 (s_mul (Un Cos a) (Un Cos a))) da
    | Exp => s_mul e da
    | Log => s_mul (s_div c1 a) da
    | Sqrt => s_mul (s_div c1 (s_mul c2 e)) da
    | Tanh => s_mul (s_sub c1 (s_mul e e)) da
    | Sinh => s_mul (Un Cosh a) da
    | Cosh => s_mul (Un Sinh a) da
    | Asin => s_mul (s_div c1 (Un Sqrt (s_sub c1 (s_mul a a)))) da
    | Acos => s_mul (s_neg (s_div c1 (Un Sqrt (s_sub c1 (s_mul a a))))) da
    | Atan => s_mul (s_div c1 (s_add c1 (s_mul a a))) da
    | Asinh => s_mul (s_div c1 (Un Sqrt (s_add c1 (s_mul a a)))) da
    | Acosh => s_mul (s_div c1 (Un Sqrt (s_sub (s_mul a a) c1))) da
    | Atanh => s_mul (s_div c1 (s_sub c1 (s_mul a a))) da
    | Log2 => s_mul (s_div c1 (s_mul a (Const ln2c))) da
    | Log10 => s_mul (s_div c1 (s_mul a (Const ln10c))) da
    end.

  (* ---- binary rules of _gradient_cached: e = Bin o l r ---- *)
  Definition binary_grad (o : bop) (l r : expr) (dl dr : expr) : expr :=
    match o with
    | Add => s_add dl dr
    | Sub => s_sub dl dr
    | Mul => s_add (s_mul l dr) (s_mul r dl)
    | Div => s_div (s_sub (s_mul r dl) (s_mul l dr)) (s_mul r r)
    | Pow =>
        match r with
        | Const n =>
            if Qeq_bool n 0 then c0
            else if Qeq_bool n 1 then dl
            else s_mul (s_mul (Const n) (s_pow l (Const (n - 1)%Q))) dl
        | _ =>
            s_mul (Bin Pow l r) (s_add (s_mul dr (Un Log l)) (s_div (s_mul r dl) l))
        end
    end.

  Definition mem_name (x : string) (xs : list string) : bool := existsb (String.eqb x) xs.

  (* coefficient of the first element named v (LinearCombination over a VectorVariable) *)
  Fixpoint first_coeff (cs : list Q) (es : list expr) : expr :=
    match cs, es with
    | c :: cs', Var x :: es' => if String.eqb x v then Const c else first_coeff cs' es'
    | _ :: cs', _ :: es' => first_coeff cs' es'
    | _, _ => c0
    end.

  (* index of the first element named v *)
  Fixpoint index_of (es : list expr) (i : nat) : option nat :=
    match es with
    | Var x :: es' => if String.eqb x v then Some i else index_of es' (S i)
    | _ :: es' => index_of es' (S i)
    | [] => None
    end.

  Definition qsym (m : list (list Q)) (i j : nat) : Q :=
    (nth j (nth i m []) 0 + nth i (nth j m []) 0)%Q.

  Definition qsym_row (m : list (list Q)) (i n : nat) : list Q :=
    map (fun j => qsym m i j) (seq 0 n).

  (* VectorUnarySum rule: f'(x) as a tree over the vector's own variable *)
  Definition vunary_deriv (o : uop) (x : string) : option expr :=
    let var := Var x in
    match o with
    | Sin => Some (Un Cos var)
    | Cos => Some (Bin Mul (Const (-1)%Q) (Un Sin var))
    | Exp => Some (Un Exp var)
    | Log => Some (Bin Div c1 var)
    | Sqrt => Some (Bin Div c1 (Bin Mul c2 (Un Sqrt var)))
    | Sinh => Some (Un Cosh var)
    | Cosh => Some (Un Sinh var)
    | Tanh => Some (Bin Sub c1 (Bin Pow (Un Tanh var) c2))
    | Tan => Some (Bin Div c1 (Bin Pow (Un Cos var) c2))
    | Abs => Some (Bin Div var (Un Abs var))
    | _ => None         (* not constructible: VectorUnarySum rejects other ops *)
    end.

  (* VectorPowerSum rule *)
  Definition vpow_deriv (k : Q) (x : string) : expr :=
    if Qeq_bool k 1 then c1
    else if Qeq_bool k 2 then Bin Mul c2 (Var x)
    else Bin Mul (Const k) (Bin Pow (Var x) (Const (k - 1)%Q)).

  (* ---- folds used by the registered rules; [des] are the element gradients ---- *)

  (* LinearCombination over a VectorExpression: acc + c_i * d(e_i) *)
  Fixpoint lincomb_grad (cs : list Q) (des : list expr) (acc : expr) : expr :=
    match cs, des with
    | c :: cs', d :: des' => lincomb_grad cs' des' (s_add acc (s_mul (Const c) d))
    | _, _ => acc
    end.

  (* VectorExpressionSum / MatrixSum: acc + d(e_i) *)
  Fixpoint sum_grad (des : list expr) (acc : expr) : expr :=
    match des with
    | d :: des' => sum_grad des' (s_add acc d)
    | [] => acc
    end.

  (* L2Norm over expressions / FrobeniusNorm: acc + (e_i / node) * d(e_i) *)
  Fixpoint norm2_grad (node : expr) (es des : list expr) (acc : expr) : expr :=
    match es, des with
    | a :: es', d :: des' => norm2_grad node es' des' (s_add acc (s_mul (s_div a node) d))
    | _, _ => acc
    end.

  (* L1Norm over expressions: acc + (e_i / |e_i|) * d(e_i) *)
  Fixpoint norm1_grad (es des : list expr) (acc : expr) : expr :=
    match es, des with
    | a :: es', d :: des' => norm1_grad es' des' (s_add acc (s_mul (s_div a (Un Abs a)) d))
    | _, _ => acc
    end.

  (* DotProduct of two VectorVariables that are different objects *)
  Fixpoint dot_vv_grad (ls rs : list expr) (acc : expr) : expr :=
    match ls, rs with
    | l :: ls', r :: rs' =>
        let acc1 := match l with
                    | Var x => if String.eqb x v then s_add acc r else acc
                    | _ => acc end in
        let acc2 := match r with
                    | Var y => if String.eqb y v then s_add acc1 l else acc1
                    | _ => acc1 end in
        dot_vv_grad ls' rs' acc2
    | _, _ => acc
    end.

  (* DotProduct, general product rule: acc + (l*dr + r*dl) *)
  Fixpoint dot_gen_grad (ls rs dls drs : list expr) (acc : expr) : expr :=
    match ls, rs, dls, drs with
    | l :: ls', r :: rs', dl :: dls', dr :: drs' =>
        dot_gen_grad ls' rs' dls' drs' (s_add acc (s_add (s_mul l dr) (s_mul r dl)))
    | _, _, _, _ => acc
    end.

  (* QuadraticForm over expressions: [(Q+Q')f]_i as a tree, skipping zero coefficients *)
  Definition qf_row (es : list expr) (m : list (list Q)) (i : nat) : expr :=
    fold_left (fun acc jc =>
                 let '(ej, c) := jc in
                 if Qeq_bool c 0 then acc else s_add acc (s_mul (Const c) ej))
              (combine es (qsym_row m i (List.length es))) c0.

  Fixpoint qform_grad (es : list expr) (m : list (list Q)) (des : list expr) (i : nat) (acc : expr) : expr :=
    match des with
    | d :: des' => qform_grad es m des' (S i) (s_add acc (s_mul (qf_row es m i) d))
    | [] => acc
    end.

  (* ---- gradient: registry rules + recursive traversal ---- *)
  Fixpoint grad (e : expr) {struct e} : expr :=
    match e with
    | Const _ => c0
    | Param _ => c0
    | Var x => if String.eqb x v then c1 else c0
    | Bin o l r => binary_grad o l r (grad l) (grad r)
    | Un o a => unary_grad o a (grad a)
    | VSum _ xs => if mem_name v xs then c1 else c0
    | LinComb cs k es =>
        match k with
        | KVar _ => first_coeff cs es
        | KExpr => lincomb_grad cs (map grad es) c0
        end
    | VExprSum es => sum_grad (map grad es) c0
    | MSum _ es => sum_grad (map grad es) c0
    | Frob es => norm2_grad (Frob es) es (map grad es) c0
    | Dot kl ls kr rs =>
        match kl, kr with
        | KVar i, KVar j =>
            if N.eqb i j then
              (if mem_name v (vec_names ls) then s_mul c2 (Var v) else c0)
            else dot_vv_grad ls rs c0
        | _, _ => dot_gen_grad ls rs (map grad ls) (map grad rs) c0
        end
    | L2n k es =>
        match k with
        | KVar _ => if mem_name v (vec_names es) then s_div (Var v) (L2n k es) else c0
        | KExpr => norm2_grad (L2n k es) es (map grad es) c0
        end
    | L1n k es =>
        match k with
        | KVar _ => if mem_name v (vec_names es) then s_div (Var v) (Un Abs (Var v)) else c0
        | KExpr => norm1_grad es (map grad es) c0
        end
    | QForm k es m =>
        match k with
        | KVar _ =>
            match index_of es 0 with
            | Some i => LinComb (qsym_row m i (List.length es)) k es
            | None => c0
            end
        | KExpr => qform_grad es m (map grad es) 0 c0
        end
    | VPowSum _ xs k => if mem_name v xs then vpow_deriv k v else c0
    | VUnSum _ xs o =>
        if mem_name v xs then match vunary_deriv o v with Some d => d | None => c0 end else c0
    end.

  (* the explicit-stack traversal: registry rules and leaves handled flat *)
  Definition grad_iter (e : expr) : option expr :=
    fold_iter expr grad binary_grad unary_grad e.

  (* autodiff.py _estimate_tree_depth (left-spine heuristic, capped at 500) *)
  Fixpoint depth_left (e : expr) : nat :=
    match e with
    | Bin _ l _ => S (depth_left l)
    | Un _ a => S (depth_left a)
    | _ => 0
    end.

  (* gradient(): registry first, then depth switch with threshold [th] *)
  Definition gradient (th : nat) (e : expr) : expr :=
    match e with
    | Bin _ _ _ | Un _ _ =>
        if Nat.leb th (depth_left e)
        then match grad_iter e with Some g => g | None => c0 end
        else grad e
    | _ => grad e
    end.
End Grad.

(* compute_hessian: gradient of gradient, H[i][j] = d(grad_i)/d(var_j) *)
Definition compute_hessian (ln2c ln10c : Q) (e : expr) (V : list string) : list (list expr) :=
  map (fun vi => map (fun vj => grad ln2c ln10c vj (grad ln2c ln10c vi e)) V) V.
