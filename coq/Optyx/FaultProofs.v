(* FaultProofs.v — property C20: fault containment during a solve.
   If the underlying solver or any callback raises at any point during a solve, the
   call either returns a FAILED solution or propagates the exception; in all cases the
   process-global state changed during the solve (warnings.showwarning, recursion
   limit) is restored and the problem's caches remain valid: the next solve returns
   the same result as if the failed attempt had never happened.
   All statements are about the models in Fault.v; everything is decided by finite
   case analysis (the hook identity stays a universally quantified nat). *)
From Coq Require Import String List Arith Bool.
From Optyx Require Import Fault.
Import ListNotations.

(* finite case analysis over world flags, needs_hess, and the fault *)
Ltac cases_world w := destruct w as [h vc sc hc]; destruct vc, sc, hc.
Ltac cases_fault fault :=
  let p := fresh "p" in let e := fresh "e" in
  destruct fault as [[p e]|]; [destruct p; destruct e|].

(* ------------------------------------------------------------------ *)
(** * 0. the exception lattice *)

Lemma is_exception_spec : forall e, is_exception e = false <-> e = KeyboardInterrupt.
Proof. intros e; split; [destruct e; simpl; intros H; try discriminate; reflexivity | intros ->; reflexivity]. Qed.

(* does the faulty phase run at all?  _build_solver_cache only runs when there is no
   solver cache yet; compile_hessian only when a Hessian is needed and not cached *)
Definition fires (w : world) (needs_hess : bool) (p : phase) : bool :=
  match p with
  | PBuildCache => negb (solver_cached w)
  | PBuildHess => needs_hess && negb (hess_cached w)
  | _ => true
  end.

(* ------------------------------------------------------------------ *)
(** * 1. the warning hook is restored: every phase, every exception class, no fault *)

Theorem hook_restored : forall w needs_hess fault,
    hook (fst (solve_scipy w needs_hess fault)) = hook w.
Proof.
  intros w needs_hess fault. cases_world w; destruct needs_hess; cases_fault fault; reflexivity.
Qed.

(* ------------------------------------------------------------------ *)
(** * 2. outcome classes *)

(* COUNTER-EXAMPLE to the unconditional statement "out = FAILED \/ out = Propagated e":
   a fault planted in a phase that does not run (builder fault while the solver cache
   is already there) has no effect at all and the solve returns normally. *)
Example fault_in_skipped_phase_is_ok :
  snd (solve_scipy {| hook := 7; vars_cached := true; solver_cached := true; hess_cached := false |}
         false (Some (PBuildCache, MemoryError))) = Returned_OK.
Proof. vm_compute. reflexivity. Qed.

(* a fault in a phase that does not run is unobservable *)
Theorem skipped_phase_unobservable : forall w needs_hess p e,
    fires w needs_hess p = false ->
    solve_scipy w needs_hess (Some (p, e)) = solve_scipy w needs_hess None.
Proof.
  intros w needs_hess p e. cases_world w; destruct needs_hess; destruct p; simpl;
    intros Hf; try discriminate Hf; reflexivity.
Qed.

(* a fault that strikes: FAILED or propagated, never a normal return *)
Theorem outcome_classes : forall w needs_hess p e,
    fires w needs_hess p = true ->
    let out := snd (solve_scipy w needs_hess (Some (p, e))) in
    out = Returned_FAILED \/ out = Propagated e.
Proof.
  intros w needs_hess p e. cases_world w; destruct needs_hess; destruct p; destruct e; simpl;
    intros Hf; try discriminate Hf; (left; reflexivity) || (right; reflexivity).
Qed.

(* in every case (fired or not) *)
Theorem outcome_classes_all : forall w needs_hess p e,
    let out := snd (solve_scipy w needs_hess (Some (p, e))) in
    out = Returned_OK \/ out = Returned_FAILED \/ out = Propagated e.
Proof.
  intros w needs_hess p e. cases_world w; destruct needs_hess; destruct p; destruct e; simpl;
    (left; reflexivity) || (right; left; reflexivity) || (right; right; reflexivity).
Qed.

Theorem fault_never_ok : forall w needs_hess p e,
    fires w needs_hess p = true ->
    snd (solve_scipy w needs_hess (Some (p, e))) <> Returned_OK.
Proof.
  intros w needs_hess p e Hf.
  destruct (outcome_classes w needs_hess p e Hf) as [H | H]; rewrite H; discriminate.
Qed.

(* an Exception raised inside minimize (solver entry, callback, solver exit) is
   converted into a FAILED solution *)
Theorem oracle_exception_failed : forall w needs_hess p e,
    p = POracle -> is_exception e = true ->
    snd (solve_scipy w needs_hess (Some (p, e))) = Returned_FAILED.
Proof.
  intros w needs_hess p e -> He. cases_world w; destruct needs_hess; destruct e;
    try discriminate He; reflexivity.
Qed.

(* KeyboardInterrupt (not an Exception) always propagates, wherever it strikes *)
Theorem non_exception_propagates : forall w needs_hess p e,
    fires w needs_hess p = true -> is_exception e = false ->
    snd (solve_scipy w needs_hess (Some (p, e))) = Propagated e.
Proof.
  intros w needs_hess p e. cases_world w; destruct needs_hess; destruct p; destruct e; simpl;
    intros Hf He; try discriminate Hf; try discriminate He; reflexivity.
Qed.

(* faults outside the try block propagate, whatever their class *)
Theorem outside_try_propagates : forall w needs_hess p e,
    fires w needs_hess p = true -> p <> POracle ->
    snd (solve_scipy w needs_hess (Some (p, e))) = Propagated e.
Proof.
  intros w needs_hess p e. cases_world w; destruct needs_hess; destruct p; destruct e; simpl;
    intros Hf Hp; try discriminate Hf; try (exfalso; apply Hp; reflexivity); reflexivity.
Qed.

(* exact characterisation of FAILED *)
Theorem failed_iff : forall w needs_hess p e,
    snd (solve_scipy w needs_hess (Some (p, e))) = Returned_FAILED <->
    (p = POracle /\ is_exception e = true).
Proof.
  intros w needs_hess p e. split.
  - cases_world w; destruct needs_hess; destruct p; destruct e; simpl; intros H;
      try discriminate H; split; reflexivity.
  - intros [Hp He]. apply oracle_exception_failed; assumption.
Qed.

(* no fault: normal return *)
Theorem no_fault_ok : forall w needs_hess, snd (solve_scipy w needs_hess None) = Returned_OK.
Proof. intros w needs_hess. cases_world w; destruct needs_hess; reflexivity. Qed.

(* ------------------------------------------------------------------ *)
(** * 3. cache flags only move forward and never claim more than was built *)

Theorem caches_monotone : forall w nh fault,
    let w' := fst (solve_scipy w nh fault) in
    (vars_cached w = true -> vars_cached w' = true) /\
    (solver_cached w = true -> solver_cached w' = true) /\
    (hess_cached w = true -> hess_cached w' = true).
Proof.
  intros w nh fault. cases_world w; destruct nh; cases_fault fault; simpl;
    repeat split; intros H; try discriminate H; reflexivity.
Qed.

(* a failed build leaves NO solver cache behind *)
Theorem no_partial_cache : forall w nh fault e,
    fault = Some (PBuildCache, e) -> solver_cached w = false ->
    solver_cached (fst (solve_scipy w nh fault)) = false.
Proof.
  intros w nh fault e -> Hs. cases_world w; destruct nh; simpl in *;
    try discriminate Hs; reflexivity.
Qed.

(* a failed compile_hessian leaves NO hess_fn behind (and when no Hessian is needed
   the phase does not run and none is recorded either) *)
Theorem no_partial_hess : forall w nh fault e,
    fault = Some (PBuildHess, e) -> hess_cached w = false ->
    hess_cached (fst (solve_scipy w nh fault)) = false.
Proof.
  intros w nh fault e -> Hs. cases_world w; destruct nh; simpl in *;
    try discriminate Hs; reflexivity.
Qed.

(* a fault before the builders leaves both builder caches exactly as they were *)
Theorem early_fault_caches_unchanged : forall w nh p e,
    p = PVariables \/ p = PGate ->
    solver_cached (fst (solve_scipy w nh (Some (p, e)))) = solver_cached w /\
    hess_cached (fst (solve_scipy w nh (Some (p, e)))) = hess_cached w.
Proof.
  intros w nh p e [-> | ->]; cases_world w; destruct nh; split; reflexivity.
Qed.

(* hess_fn is only ever recorded when it was there already or was asked for *)
Theorem hess_only_if_needed : forall w nh fault,
    hess_cached (fst (solve_scipy w nh fault)) = true -> hess_cached w = true \/ nh = true.
Proof.
  intros w nh fault. cases_world w; destruct nh; cases_fault fault; simpl; intros H;
    try discriminate H; (left; reflexivity) || (right; reflexivity).
Qed.

(* ------------------------------------------------------------------ *)
(** * 4. the next solve is as if the failed attempt had never happened *)

Definition after_fault (w : world) (nh : bool) (fault : option (phase * exc)) : world :=
  fst (solve_scipy w nh fault).

(* full (world, outcome) equality: stronger than the three separate clauses *)
Theorem retry_same_result : forall w nh fault,
    solve_scipy (after_fault w nh fault) nh None = solve_scipy w nh None.
Proof.
  intros w nh fault. unfold after_fault.
  cases_world w; destruct nh; cases_fault fault; reflexivity.
Qed.

Theorem retry_same_outcome : forall w nh fault,
    snd (solve_scipy (after_fault w nh fault) nh None) = Returned_OK /\
    hook (fst (solve_scipy (after_fault w nh fault) nh None)) = hook w /\
    fst (solve_scipy (after_fault w nh fault) nh None) = fst (solve_scipy w nh None).
Proof.
  intros w nh fault. rewrite retry_same_result. repeat split.
  - apply no_fault_ok.
  - apply hook_restored.
Qed.

(* any number of failed attempts in a row *)
Fixpoint after_faults (w : world) (nh : bool) (faults : list (option (phase * exc))) : world :=
  match faults with
  | [] => w
  | ft :: r => after_faults (after_fault w nh ft) nh r
  end.

Theorem retry_after_many_faults : forall faults w nh,
    solve_scipy (after_faults w nh faults) nh None = solve_scipy w nh None.
Proof.
  induction faults as [|ft r IH]; intros w nh; simpl; [reflexivity|].
  rewrite IH. apply retry_same_result.
Qed.

Theorem hook_after_many_faults : forall faults w nh,
    hook (after_faults w nh faults) = hook w.
Proof.
  induction faults as [|ft r IH]; intros w nh; simpl; [reflexivity|].
  rewrite IH. apply hook_restored.
Qed.

(* ------------------------------------------------------------------ *)
(** * 5. solve_lp *)

Theorem lp_world_untouched : forall w fault, fst (solve_lp w fault) = w.
Proof.
  intros w [[p e]|]; [|reflexivity]. destruct p; simpl; try reflexivity.
  destruct (is_exception e); reflexivity.
Qed.

Theorem lp_hook_untouched : forall w fault, hook (fst (solve_lp w fault)) = hook w.
Proof. intros w fault. now rewrite lp_world_untouched. Qed.

Theorem lp_outcome_classes : forall w p e,
    let out := snd (solve_lp w (Some (p, e))) in
    out = Returned_FAILED \/ out = Propagated e.
Proof. intros w p e. destruct p; destruct e; simpl; (left; reflexivity) || (right; reflexivity). Qed.

Theorem lp_oracle_exception_failed : forall w e,
    is_exception e = true -> snd (solve_lp w (Some (LOracle, e))) = Returned_FAILED.
Proof. intros w e He. simpl. rewrite He. reflexivity. Qed.

Theorem lp_non_exception_propagates : forall w p e,
    is_exception e = false -> snd (solve_lp w (Some (p, e))) = Propagated e.
Proof. intros w p e He. destruct p; simpl; try reflexivity. rewrite He. reflexivity. Qed.

Theorem lp_outside_oracle_propagates : forall w p e,
    p <> LOracle -> snd (solve_lp w (Some (p, e))) = Propagated e.
Proof. intros w p e Hp. destruct p; simpl; try reflexivity. exfalso; apply Hp; reflexivity. Qed.

Theorem lp_no_fault_ok : forall w, solve_lp w None = (w, Returned_OK).
Proof. reflexivity. Qed.

Theorem lp_retry_same : forall w fault,
    solve_lp (fst (solve_lp w fault)) None = solve_lp w None.
Proof. intros w fault. now rewrite lp_world_untouched. Qed.

(* ------------------------------------------------------------------ *)
(** * 6. nested solves *)

(* the world the inner solve of [nested] starts from *)
Definition nested_inner_world (w : world) (nh : bool) : world :=
  {| hook := handler_id; vars_cached := true; solver_cached := true;
     hess_cached := hess_cached w || nh |}.

Theorem nested_restores : forall w nh fi fo, hook (fst (nested w nh fi fo)) = hook w.
Proof.
  intros w nh fi fo. unfold nested.
  destruct (solve_scipy _ nh fi) as [wa oa].
  destruct fo as [[p e]|]; [destruct (is_exception e)|]; reflexivity.
Qed.

(* the inner solve restores the OUTER solve's temporary handler, not the original
   hook: the outer solve keeps collecting warnings after the inner one returns/fails *)
Theorem inner_restores_outer_handler : forall w nh fi,
    hook (fst (solve_scipy (nested_inner_world w nh) nh fi)) = handler_id.
Proof. intros w nh fi. rewrite hook_restored. reflexivity. Qed.

Theorem inner_restores_any_handler : forall w_in nh fi,
    hook w_in = handler_id -> hook (fst (solve_scipy w_in nh fi)) = handler_id.
Proof. intros w_in nh fi H. rewrite hook_restored. exact H. Qed.

(* [nested] really runs its inner solve from [nested_inner_world] *)
Lemma nested_unfold : forall w nh fi fo,
    nested w nh fi fo =
    let w_after_inner := fst (solve_scipy (nested_inner_world w nh) nh fi) in
    let restored := {| hook := hook w; vars_cached := true; solver_cached := true;
                       hess_cached := hess_cached w_after_inner |} in
    match fo with
    | Some (_, e) => if is_exception e then (restored, Returned_FAILED) else (restored, Propagated e)
    | None => (restored, Returned_OK)
    end.
Proof.
  intros w nh fi fo. unfold nested, nested_inner_world.
  destruct (solve_scipy _ nh fi) as [wa oa]. reflexivity.
Qed.

(* the outer outcome is decided by the outer fault alone: an inner failure is contained *)
Theorem nested_outcome : forall w nh fi fo,
    snd (nested w nh fi fo) =
    match fo with
    | Some (_, e) => if is_exception e then Returned_FAILED else Propagated e
    | None => Returned_OK
    end.
Proof.
  intros w nh fi fo. rewrite nested_unfold.
  destruct fo as [[p e]|]; [destruct (is_exception e)|]; reflexivity.
Qed.

(* ------------------------------------------------------------------ *)
(** * 7. the recursion-limit bracket *)

Theorem recursion_limit_restored : forall current limit fault,
    fst (with_recursion_limit current limit fault) = current.
Proof. intros current limit [|e|e]; reflexivity. Qed.

Theorem recursion_limit_outcome : forall current limit fault,
    snd (with_recursion_limit current limit fault) =
    match fault with RLNone => Returned_OK | RLBody e | RLSet e => Propagated e end.
Proof. intros current limit [|e|e]; reflexivity. Qed.

(* ------------------------------------------------------------------ *)
(** * 8. examples *)

Definition w0 : world := {| hook := 42; vars_cached := false; solver_cached := false; hess_cached := false |}.

(* a ValueError in a callback: FAILED, hook restored, caches built *)
Example ex_value_error_callback :
  solve_scipy w0 true (Some (POracle, ValueError)) =
  ({| hook := 42; vars_cached := true; solver_cached := true; hess_cached := true |}, Returned_FAILED).
Proof. vm_compute. reflexivity. Qed.

Example ex_fpe_callback :
  snd (solve_scipy w0 false (Some (POracle, FloatingPointError))) = Returned_FAILED /\
  hook (fst (solve_scipy w0 false (Some (POracle, FloatingPointError)))) = 42.
Proof. vm_compute. split; reflexivity. Qed.

(* a KeyboardInterrupt during minimize: propagates, hook restored *)
Example ex_keyboard_interrupt :
  solve_scipy w0 true (Some (POracle, KeyboardInterrupt)) =
  ({| hook := 42; vars_cached := true; solver_cached := true; hess_cached := true |},
   Propagated KeyboardInterrupt).
Proof. vm_compute. reflexivity. Qed.

(* a MemoryError inside the cache build: propagates, NO solver cache, hook untouched *)
Example ex_memory_error_build :
  solve_scipy w0 true (Some (PBuildCache, MemoryError)) =
  ({| hook := 42; vars_cached := true; solver_cached := false; hess_cached := false |},
   Propagated MemoryError).
Proof. vm_compute. reflexivity. Qed.

(* a failure inside compile_hessian: solver cache kept, no hess_fn *)
Example ex_value_error_hess :
  solve_scipy w0 true (Some (PBuildHess, ValueError)) =
  ({| hook := 42; vars_cached := true; solver_cached := true; hess_cached := false |},
   Propagated ValueError).
Proof. vm_compute. reflexivity. Qed.

(* and the retry after each of them is the fault-free solve *)
Example ex_retry :
  solve_scipy (after_fault w0 true (Some (PBuildCache, MemoryError))) true None =
  ({| hook := 42; vars_cached := true; solver_cached := true; hess_cached := true |}, Returned_OK).
Proof. vm_compute. reflexivity. Qed.

(* nested: inner ValueError, outer continues normally, original hook back *)
Example ex_nested :
  nested w0 false (Some (POracle, ValueError)) None =
  ({| hook := 42; vars_cached := true; solver_cached := true; hess_cached := false |}, Returned_OK).
Proof. vm_compute. reflexivity. Qed.

Example ex_recursion_limit :
  with_recursion_limit 1000 5000 (RLBody MemoryError) = (1000, Propagated MemoryError).
Proof. vm_compute. reflexivity. Qed.

Print Assumptions hook_restored.
Print Assumptions outcome_classes.
Print Assumptions skipped_phase_unobservable.
Print Assumptions oracle_exception_failed.
Print Assumptions non_exception_propagates.
Print Assumptions outside_try_propagates.
Print Assumptions failed_iff.
Print Assumptions caches_monotone.
Print Assumptions no_partial_cache.
Print Assumptions no_partial_hess.
Print Assumptions retry_same_result.
Print Assumptions retry_same_outcome.
Print Assumptions retry_after_many_faults.
Print Assumptions lp_world_untouched.
Print Assumptions lp_outcome_classes.
Print Assumptions nested_restores.
Print Assumptions inner_restores_outer_handler.
Print Assumptions recursion_limit_restored.
