(* MachineProofs.v — the explicit-stack post-order traversal of Machine.v
   computes exactly the structural recursion [fold_rec], and the fuel
   [fuel_for e] always suffices. *)
From Coq Require Import List Arith Lia.
From Optyx Require Import Syntax Machine.
Import ListNotations.

Section MachineProofs.
  Variable A : Type.
  Variable leaf : expr -> A.
  Variable fbin : bop -> expr -> expr -> A -> A -> A.
  Variable funa : uop -> expr -> A -> A.

  Local Notation frec := (fold_rec A leaf fbin funa).
  Local Notation mrun := (run A leaf fbin funa).

  (* exact number of machine steps spent on [Visit e] until its result is pushed *)
  Fixpoint cost (e : expr) : nat :=
    match e with
    | Bin _ l r => S (S (cost l + cost r))
    | Un _ a => S (S (cost a))
    | _ => 1
    end.

  Lemma cost_le_tsize : forall e, cost e <= 2 * tsize e.
  Proof.
    induction e as [ q | x | p | o l IHl r IHr | o a IHa | vid xs | cs k es
                   | kl dls kr drs | k es | k es | k es m | vid xs p | vid xs o
                   | es | isvar es | es ]; simpl; lia.
  Qed.

  Lemma run_visit : forall e n st rs,
      mrun (cost e + n) (Visit e :: st) rs = mrun n st (frec e :: rs).
  Proof.
    induction e as [ q | x | p | o l IHl r IHr | o a IHa | vid xs | cs k es
                   | kl dls kr drs | k es | k es | k es m | vid xs p | vid xs o
                   | es | isvar es | es ]; intros n st rs;
      try reflexivity.
    - (* Bin *)
      change (cost (Bin o l r) + n) with (S (S (cost l + cost r) + n)).
      change (mrun (S (S (cost l + cost r) + n)) (Visit (Bin o l r) :: st) rs)
        with (mrun (S (cost l + cost r) + n)
                   (Visit l :: Visit r :: Combine (Bin o l r) :: st) rs).
      replace (S (cost l + cost r) + n) with (cost l + (cost r + S n)) by lia.
      rewrite IHl, IHr.
      reflexivity.
    - (* Un *)
      change (cost (Un o a) + n) with (S (S (cost a) + n)).
      change (mrun (S (S (cost a) + n)) (Visit (Un o a) :: st) rs)
        with (mrun (S (cost a) + n) (Visit a :: Combine (Un o a) :: st) rs).
      replace (S (cost a) + n) with (cost a + S n) by lia.
      rewrite IHa.
      reflexivity.
  Qed.

  Theorem fold_iter_correct_sec : forall e,
      fold_iter A leaf fbin funa e = Some (frec e).
  Proof.
    intros e. unfold fold_iter, fuel_for.
    pose proof (cost_le_tsize e) as Hc.
    replace (2 * tsize e + 1) with (cost e + S (2 * tsize e - cost e)) by lia.
    rewrite run_visit.
    reflexivity.
  Qed.
End MachineProofs.

Theorem fold_iter_correct : forall A leaf fbin funa e,
    fold_iter A leaf fbin funa e = Some (fold_rec A leaf fbin funa e).
Proof. exact fold_iter_correct_sec. Qed.

(* the machine never gets stuck and never runs out of fuel *)
Corollary fold_iter_total : forall A leaf fbin funa e,
    fold_iter A leaf fbin funa e <> None.
Proof. intros A leaf fbin funa e. rewrite fold_iter_correct. discriminate. Qed.

Print Assumptions fold_iter_correct.
