(* Jacobian.v — solver-facing derivative callables.
   Mirrors: Expression.jacobian_row defaults and overrides
            (expressions.py BinaryOp.jacobian_row; vectors.py VectorSum,
             DotProduct, LinearCombination, VectorPowerSum, VectorUnarySum,
             VectorExpressionSum; matrices.py MatrixSum, QuadraticForm),
            autodiff.py compute_jacobian, _is_scaled_variable_pattern,
            compile_jacobian (fast paths 0,1,2 + general), compile_hessian
            (diagonal fast paths + mirrored upper triangle),
            compiler.py compile_gradient, _compile_vectorized_*_gradient
            (closure bodies come from the GENERATED tables, see ArrTerm.v).
   Real-valued denotations ignore _sanitize_derivatives (identity on finite
   arrays); the non-finite behaviour is Sanitize.v's subject.
   No proofs here (see JacobianProofs.v). *)
From Coq Require Import String List Arith Bool QArith ZArith Reals Qreals.
From Optyx Require Import Syntax Occ SemR Autodiff Compile ArrTerm.
Import ListNotations.
Close Scope Q_scope.
Close Scope R_scope.
Open Scope nat_scope.

Section Rows.
  Variable ln2c ln10c : Q.

  (* c * e / e * c scaling used by BinaryOp.jacobian_row *)
  Definition scale_l (c : Q) (e : expr) : expr :=
    match e with Const q => Const (c * q)%Q | _ => Bin Mul (Const c) e end.
  Definition scale_r (c : Q) (e : expr) : expr :=
    match e with Const q => Const (c * q)%Q | _ => Bin Mul e (Const c) end.

  Definition mem (x : string) (xs : list string) : bool := existsb (String.eqb x) xs.

  (* LinearCombination.jacobian_row: dict var -> coefficient (last one wins) *)
  Fixpoint last_coeff (v : string) (cs : list Q) (es : list expr) (found : Q) : Q :=
    match cs, es with
    | c :: cs', Var x :: es' => last_coeff v cs' es' (if String.eqb x v then c else found)
    | _ :: cs', _ :: es' => last_coeff v cs' es' found
    | _, _ => found
    end.

  (* DotProduct.jacobian_row, two different VectorVariables: every occurrence of
     v contributes the element it is paired with; terms joined by BinaryOp "+" *)
  Fixpoint dot_contribs (v : string) (ls rs : list expr) : list expr :=
    match ls, rs with
    | l :: ls', r :: rs' =>
        (match l with Var x => if String.eqb x v then [r] else [] | _ => [] end) ++
        (match r with Var y => if String.eqb y v then [l] else [] | _ => [] end) ++
        dot_contribs v ls' rs'
    | _, _ => []
    end.
  Definition join_add (ts : list expr) : expr :=
    match ts with
    | [] => c0
    | t :: r => fold_left (fun acc x => Bin Add acc x) r t
    end.

  (* MatrixSum.jacobian_row over a MatrixVariable: number of entries holding v *)
  Definition count_name (v : string) (es : list expr) : nat :=
    List.length (filter (fun e => match e with Var x => String.eqb x v | _ => false end) es).

  Fixpoint jac_row (V : list string) (e : expr) {struct e} : option (list expr) :=
    match e with
    | Bin o l r =>
        match o, r with
        | (Add | Sub), Const _ => jac_row V l
        | _, _ =>
          match o, l with
          | Add, Const _ => jac_row V r
          | _, _ =>
            let right_case :=
              match o, r with
              | Mul, Const c =>
                  match jac_row V l with
                  | Some row => Some (map (scale_r c) row)
                  | None => None
                  end
              | _, _ => None
              end in
            match o, l with
            | Mul, Const c =>
                match jac_row V r with
                | Some row => Some (map (scale_l c) row)
                | None => right_case
                end
            | _, _ => right_case
            end
          end
        end
    | VSum _ xs => Some (map (fun v => if mem v xs then c1 else c0) V)
    | LinComb cs (KVar _) es => Some (map (fun v => Const (last_coeff v cs es 0%Q)) V)
    | Dot (KVar i) ls (KVar j) rs =>
        if N.eqb i j then
          Some (map (fun v => if mem v (vec_names ls) then Bin Mul c2 (Var v) else c0) V)
        else
          Some (map (fun v => join_add (dot_contribs v ls rs)) V)
    | VPowSum _ xs k => Some (map (fun v => if mem v xs then vpow_deriv k v else c0) V)
    | VUnSum _ xs o =>
        match vunary_deriv o "x" with
        | Some _ => Some (map (fun v => if mem v xs
                                        then match vunary_deriv o v with Some d => d | None => c0 end
                                        else c0) V)
        | None => None
        end
    | MSum true es => Some (map (fun v => Const (inject_Z (Z.of_nat (count_name v es)))) V)
    | QForm (KVar i) es m =>
        Some (map (fun v => match index_of v es 0 with
                            | Some k => LinComb (qsym_row m k (List.length es)) (KVar i) es
                            | None => c0 end) V)
    | _ => None
    end.

  (* compute_jacobian *)
  Definition compute_jacobian (es : list expr) (V : list string) : list (list expr) :=
    map (fun e => match jac_row V e with
                  | Some row => row
                  | None => map (fun v => grad ln2c ln10c v e) V
                  end) es.

  (* _is_scaled_variable_pattern: every entry is Const c * Var V_j (either order), one c *)
  Definition scaled_entry (e : expr) (v : string) : option Q :=
    match e with
    | Bin Mul (Const c) (Var x) => if String.eqb x v then Some c else None
    | Bin Mul (Var x) (Const c) => if String.eqb x v then Some c else None
    | _ => None
    end.
  Fixpoint scaled_pattern (row : list expr) (V : list string) (scale : option Q) : option Q :=
    match row, V with
    | [], [] => scale
    | e :: row', v :: V' =>
        match scaled_entry e v with
        | Some c => match scale with
                    | None => scaled_pattern row' V' (Some c)
                    | Some s => if Qeq_bool s c then scaled_pattern row' V' scale else None
                    end
        | None => None
        end
    | _, _ => None
    end.
End Rows.

(* ---- compiled Jacobian / gradient / Hessian: which path, and what it computes ---- *)
Inductive jpath :=
| JPower (full : bool) (idx : list nat) (k : Q)          (* power_jacobian_fn / grad_power_* *)
| JUnary (full : bool) (idx : list nat) (o : uop)        (* unary_jacobian_fn / grad_<op>[_sparse] *)
| JConst (m : list (list Q))                             (* constant_jacobian_fn *)
| JScaled (c : Q)                                        (* scaled_variable_jacobian_fn *)
| JGeneral (m : list (list clo))                         (* jacobian_fn *)
| JError.

Definition is_full (n : nat) (idx : list nat) : bool :=
  Nat.eqb (List.length idx) n && list_eqb Nat.eqb idx (seq 0 n).

Definition const_matrix (m : list (list expr)) : option (list (list Q)) :=
  all_some (map (fun row => all_some (map (fun e => match e with Const q => Some q | _ => None end) row)) m).

Section CompileJac.
  Variable ln2c ln10c : Q.

  Definition compile_jacobian (es : list expr) (V : list string) : jpath :=
    let n := List.length V in
    let vector_path :=
      match es with
      | [VPowSum _ xs k] => match indices V xs with
                            | Some idx => Some (JPower (is_full n idx) idx k)
                            | None => Some JError end
      | [VUnSum _ xs o] => match indices V xs with
                           | Some idx => Some (JUnary (is_full n idx) idx o)
                           | None => Some JError end
      | _ => None
      end in
    match vector_path with
    | Some p => p
    | None =>
      let jac := compute_jacobian ln2c ln10c es V in
      match const_matrix jac with
      | Some m => JConst m
      | None =>
        let scaled := match jac with
                      | [row] => if Nat.eqb (List.length row) n then scaled_pattern row V None else None
                      | _ => None end in
        match scaled with
        | Some c => JScaled c
        | None =>
          match all_some (map (fun row => all_some (map (build V) row)) jac) with
          | Some m => JGeneral m
          | None => JError
          end
        end
      end
    end.

  (* compile_gradient: vectorised fast paths, else symbolic gradient compiled entrywise *)
  Definition compile_gradient (e : expr) (V : list string) : jpath :=
    let n := List.length V in
    match e with
    | VPowSum _ xs k => match indices V xs with
                        | Some idx => JPower (is_full n idx) idx k | None => JError end
    | VUnSum _ xs o => match indices V xs with
                       | Some idx => JUnary (is_full n idx) idx o | None => JError end
    | _ => match all_some (map (fun v => build V (gradient ln2c ln10c v 400 e)) V) with
           | Some row => JGeneral [row]
           | None => JError
           end
    end.
End CompileJac.

(* ---- what the vectorised closures compute, from the generated tables ---- *)
Definition case_matches_k (k : Q) (c : ccase) : bool :=
  match c with
  | CaseK z => Qeq_bool k (inject_Z z)
  | CaseKOther | CaseKAny => true
  | CaseOp _ => false
  end.

(* first k-case that applies, in the order of the if/elif chain *)
Definition pick_power (tbl : list centry) (sparse : bool) (k : Q) : option centry :=
  find (fun e => Bool.eqb (c_sparse e) sparse && case_matches_k k (c_case e)) tbl.
Definition pick_unary (tbl : list centry) (sparse : bool) (o : uop) : option centry :=
  find (fun e => Bool.eqb (c_sparse e) sparse &&
                 match c_case e with CaseOp o' => uop_eqb o o' | _ => false end) tbl.

Section RunJac.
  Variable x : list R.
  Variable penv : string -> R.
  Local Open Scope R_scope.

  (* zeros(n) with result[idx] = vals *)
  Fixpoint scatter_one (n : nat) (i : nat) (val : R) (acc : list R) : list R :=
    match acc, i with
    | [], _ => []
    | _ :: r, O => val :: r
    | a :: r, S i' => a :: scatter_one n i' val r
    end.
  Definition scatter (n : nat) (idx : list nat) (vals : list R) : list R :=
    fold_left (fun acc iv => scatter_one n (fst iv) (snd iv) acc) (combine idx vals) (repeat 0 n).

  Definition vec_apply (ce : centry) (k : Q) (n : nat) (idx : list nat) : list R :=
    if c_sparse ce
    then scatter n idx (map (fun i => eden k (nth i x 0) (c_body ce)) idx)
    else map (fun t => eden k t (c_body ce)) x.

  Definition run_jac (pow_tbl un_tbl : list centry) (p : jpath) : option (list (list R)) :=
    let n := List.length x in
    match p with
    | JPower full idx k =>
        match pick_power pow_tbl (negb full) k with
        | Some ce => Some [vec_apply ce k n idx]
        | None => None
        end
    | JUnary full idx o =>
        match pick_unary un_tbl (negb full) o with
        | Some ce => Some [vec_apply ce 0%Q n idx]
        | None => None
        end
    | JConst m => Some (map (map Q2R) m)
    | JScaled c => Some [map (fun t => Q2R c * t) x]
    | JGeneral m => Some (map (map (Compile.run x penv)) m)
    | JError => None
    end.
End RunJac.

(* ---- compile_hessian ---- *)
Inductive hpath :=
| HPower (full : bool) (idx : list nat) (k : Q)
| HUnary (full : bool) (idx : list nat) (o : uop)
| HGeneral (upper : list (list (option clo)))    (* entry (i,j) compiled only for j >= i *)
| HError.

Definition hess_fast_ops : list uop := [Sin; Cos; Exp; Log].

Section CompileHess.
  Variable ln2c ln10c : Q.

  Definition hessian_exprs (e : expr) (V : list string) : list (list expr) :=
    map (fun vi => map (fun vj => gradient ln2c ln10c vj 400 (gradient ln2c ln10c vi 400 e)) V) V.

  Definition compile_hessian (un_hess_tbl : list centry) (e : expr) (V : list string) : hpath :=
    let n := List.length V in
    let general :=
      let H := hessian_exprs e V in
      let upper := map (fun irow => let '(i, row) := irow in
                          map (fun je => let '(j, ent) := je in
                                 if Nat.leb i j then build V ent else None)
                              (combine (seq 0 n) row))
                       (combine (seq 0 n) H) in
      (* every needed entry must build *)
      if forallb (fun irow => let '(i, row) := irow in
                    forallb (fun jc => let '(j, c) := jc in
                               if Nat.leb i j then match c with Some _ => true | None => false end else true)
                            (combine (seq 0 n) row))
                 (combine (seq 0 n) upper)
      then HGeneral upper else HError in
    match e with
    | VPowSum _ xs k => match indices V xs with
                        | Some idx => HPower (is_full n idx) idx k | None => HError end
    | VUnSum _ xs o =>
        match pick_unary un_hess_tbl false o with
        | Some _ => match indices V xs with
                    | Some idx => HUnary (is_full n idx) idx o | None => HError end
        | None => general
        end
    | _ => general
    end.
End CompileHess.

Section RunHess.
  Variable x : list R.
  Variable penv : string -> R.
  Local Open Scope R_scope.

  Definition diag_matrix (n : nat) (d : list R) : list (list R) :=
    map (fun i => map (fun j => if Nat.eqb i j then nth i d 0 else 0) (seq 0 n)) (seq 0 n).

  (* result[i,j] = result[j,i] = compiled(i,j)(x) for j >= i *)
  Definition mirrored (n : nat) (upper : list (list (option clo))) : list (list R) :=
    let get i j := match nth j (nth i upper []) None with
                   | Some c => Compile.run x penv c | None => 0 end in
    map (fun i => map (fun j => if Nat.leb i j then get i j else get j i) (seq 0 n)) (seq 0 n).

  Definition run_hess (pow_tbl un_tbl : list centry) (p : hpath) : option (list (list R)) :=
    let n := List.length x in
    match p with
    | HPower full idx k =>
        match pick_power pow_tbl (negb full) k with
        | Some ce => Some (diag_matrix n (vec_apply x ce k n idx))
        | None => None
        end
    | HUnary full idx o =>
        match pick_unary un_tbl (negb full) o with
        | Some ce => Some (diag_matrix n (vec_apply x ce 0%Q n idx))
        | None => None
        end
    | HGeneral upper => Some (mirrored n upper)
    | HError => None
    end.
End RunHess.
