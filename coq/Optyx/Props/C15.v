(* C15 — results do not depend on depth or association of the expression tree.
   Statements only; proofs are `exact <lemma>`. *)
From Coq Require Import Reals String List QArith.
From Optyx Require Import Syntax Occ SemR Machine MachineProofs Degree DegreeProofs Autodiff Compile CompileProofs
     Vars VarsProofs Assoc AssocProofs HessianProofs.
From Optyx.Gen Require Import GenTables.
Import ListNotations.
Close Scope Q_scope.

(* ---- depth: the explicit-stack algorithms return exactly what the recursive ones do ---- *)
Theorem C15_machine : forall A leaf fbin funa e,
  fold_iter A leaf fbin funa e = Some (fold_rec A leaf fbin funa e).
Proof. exact fold_iter_correct. Qed.
Print Assumptions C15_machine.

Theorem C15_gradient_threshold_free : forall ln2c ln10c v th e, gradient ln2c ln10c v th e = grad ln2c ln10c v e.
Proof. exact HessianProofs.gradient_eq_grad. Qed.
Print Assumptions C15_gradient_threshold_free.

Theorem C15_degree_threshold_free : forall th e, compute_degree th e = degree e.
Proof. exact compute_degree_eq. Qed.
Print Assumptions C15_degree_threshold_free.

Theorem C15_compile_threshold_free : forall V th e, compile V th e = build V e.
Proof. exact compile_threshold_free. Qed.
Print Assumptions C15_compile_threshold_free.

(* every node kind the recursive algorithms accept, the stack machine accepts *)
Theorem C15_machine_total : forall A leaf fbin funa e, fold_iter A leaf fbin funa e <> None.
Proof. exact fold_iter_total. Qed.
Print Assumptions C15_machine_total.

(* ---- association: left-deep, right-deep and balanced accumulations mean the same ---- *)
Theorem C15_sum_shapes : forall rho penv ts, ts <> [] ->
  evalR rho penv (chain_l Add ts) = sumR (map (evalR rho penv) ts) /\
  evalR rho penv (chain_r Add ts) = sumR (map (evalR rho penv) ts) /\
  evalR rho penv (chain_bal Add ts) = sumR (map (evalR rho penv) ts).
Proof. exact chain_add_eval. Qed.
Print Assumptions C15_sum_shapes.

Theorem C15_product_shapes : forall rho penv ts, ts <> [] ->
  evalR rho penv (chain_l Mul ts) = prodR (map (evalR rho penv) ts) /\
  evalR rho penv (chain_r Mul ts) = prodR (map (evalR rho penv) ts) /\
  evalR rho penv (chain_bal Mul ts) = prodR (map (evalR rho penv) ts).
Proof. exact chain_mul_eval. Qed.
Print Assumptions C15_product_shapes.

Theorem C15_difference_chain : forall rho penv t r,
  evalR rho penv (chain_l Sub (t :: r)) = (evalR rho penv t - sumR (map (evalR rho penv) r))%R.
Proof. exact chain_l_sub_eval. Qed.
Print Assumptions C15_difference_chain.

Theorem C15_quotient_chain : forall rho penv t r,
  evalR rho penv (chain_l Div (t :: r)) = (evalR rho penv t / prodR (map (evalR rho penv) r))%R.
Proof. exact chain_l_div_eval. Qed.
Print Assumptions C15_quotient_chain.

Theorem C15_variables_shape_independent : forall o ts,
  sort_vars (dedup (vars (chain_l o ts))) = sort_vars (dedup (vars (chain_bal o ts))) /\
  sort_vars (dedup (vars (chain_r o ts))) = sort_vars (dedup (vars (chain_bal o ts))).
Proof. exact chain_variables_shape_indep. Qed.
Print Assumptions C15_variables_shape_independent.

Theorem C15_degree_shape_independent : forall o ts, (o = Add \/ o = Sub) -> ts <> [] ->
  degree (chain_l o ts) = fold_right omax (Some 0%nat) (map degree ts) /\
  degree (chain_r o ts) = fold_right omax (Some 0%nat) (map degree ts) /\
  degree (chain_bal o ts) = fold_right omax (Some 0%nat) (map degree ts).
Proof. exact chain_addsub_degree. Qed.
Print Assumptions C15_degree_shape_independent.

Theorem C15_product_degree_shape_independent : forall ts, ts <> [] ->
  degree (chain_l Mul ts) = deg_mul_spec (map degree ts) /\
  degree (chain_r Mul ts) = deg_mul_spec (map degree ts) /\
  degree (chain_bal Mul ts) = deg_mul_spec (map degree ts).
Proof. exact chain_mul_degree_spec. Qed.
Print Assumptions C15_product_degree_shape_independent.

Theorem C15_gradient_shape_independent : forall ln2c ln10c v rho penv ts, ts <> [] ->
  evalR rho penv (grad ln2c ln10c v (chain_l Add ts)) = sumR (map (fun t => evalR rho penv (grad ln2c ln10c v t)) ts) /\
  evalR rho penv (grad ln2c ln10c v (chain_r Add ts)) = sumR (map (fun t => evalR rho penv (grad ln2c ln10c v t)) ts) /\
  evalR rho penv (grad ln2c ln10c v (chain_bal Add ts)) = sumR (map (fun t => evalR rho penv (grad ln2c ln10c v t)) ts).
Proof. exact chain_add_grad_eval. Qed.
Print Assumptions C15_gradient_shape_independent.
