(* C04 — Degree and linearity classification never under-reports.
   Only statements here; every proof is `exact <lemma>` from DegreeProofs.v. *)
From Coq Require Import Reals String List QArith.
From Optyx Require Import Syntax SemR Poly Machine Degree MachineProofs DegreeProofs.
From Optyx.Gen Require Import GenTables.
Import ListNotations.
Close Scope Q_scope.

(* whenever the analysis reports degree d, the denoted function is a polynomial
   of total degree at most d (for every parameter valuation) *)
Theorem C04_degree_sound : forall e d, wf e = true -> degree e = Some d ->
  forall penv, is_poly d (fun rho => evalR rho penv e).
Proof. exact degree_sound. Qed.
Print Assumptions C04_degree_sound.

Theorem C04_linear_sound : forall e, wf e = true -> is_linear e = true ->
  forall penv, affine (fun rho => evalR rho penv e).
Proof. exact is_linear_sound. Qed.
Print Assumptions C04_linear_sound.

Theorem C04_quadratic_sound : forall e, wf e = true -> is_quadratic e = true ->
  forall penv, is_poly 2 (fun rho => evalR rho penv e).
Proof. exact is_quadratic_sound. Qed.
Print Assumptions C04_quadratic_sound.

(* the class of degree-<=1 functions really is the affine ones, degree 0 the constants *)
Theorem C04_poly1_affine : forall f, is_poly 1 f -> affine f.
Proof. exact poly1_affine. Qed.
Print Assumptions C04_poly1_affine.

Theorem C04_poly0_constant : forall f, is_poly 0 f -> constant_fn f.
Proof. exact poly0_constant. Qed.
Print Assumptions C04_poly0_constant.

(* whichever traversal computed the answer, for every switch threshold (in
   particular the generated one), the answer is the same *)
Theorem C04_iter_eq_rec : forall e, degree_iter e = Some (degree e).
Proof. exact degree_iter_eq. Qed.
Print Assumptions C04_iter_eq_rec.

Theorem C04_threshold_free : forall th e, compute_degree th e = degree e.
Proof. exact compute_degree_eq. Qed.
Print Assumptions C04_threshold_free.

Theorem C04_generated_threshold : forall e, compute_degree th_analysis e = degree e.
Proof. exact (compute_degree_eq th_analysis). Qed.
Print Assumptions C04_generated_threshold.

(* non-vacuity *)
Example C04_example : degree (Bin Add (Bin Mul (Const 2) (Var "x")) (VSum 1%N ["y"%string; "z"%string])) = Some 1%nat
  /\ wf (Bin Add (Bin Mul (Const 2) (Var "x")) (VSum 1%N ["y"%string; "z"%string])) = true.
Proof. split; vm_compute; reflexivity. Qed.
Print Assumptions C04_example.

Example C04_not_trivial : ~ affine (fun rho => (rho "x"%string * rho "x"%string)%R).
Proof. exact square_not_affine. Qed.
Print Assumptions C04_not_trivial.
