(* C16 — a problem's variables are exactly those it mentions, in deterministic
   natural order.  Only statements; proofs are `exact <lemma>` from VarsProofs.v. *)
From Coq Require Import String List NArith Sorting.Sorted Sorting.Permutation.
From Optyx Require Import Syntax Occ Vars VarsProofs.
Import ListNotations.
Open Scope string_scope.

(* none missing, none extra, one entry per name, sorted - whichever path applies *)
Theorem C16_exact : forall obj cons,
  forallb wf (opt_list obj ++ cons) = true -> vid_consistent (opt_list obj ++ cons) ->
  (forall v, In v (problem_variables obj cons) <-> In v (occurring obj cons)) /\
  NoDup (problem_variables obj cons) /\ StronglySorted var_le (problem_variables obj cons).
Proof. exact problem_variables_exact. Qed.
Print Assumptions C16_exact.

(* the single-vector shortcut returns exactly what the general path returns, order included *)
Theorem C16_shortcut : forall obj cons,
  forallb wf (opt_list obj ++ cons) = true -> vid_consistent (opt_list obj ++ cons) ->
  problem_variables obj cons = general_path obj cons.
Proof. exact problem_variables_eq_general. Qed.
Print Assumptions C16_shortcut.

(* the order is a total order on names, so the sorted list is unique: it cannot
   depend on construction order or on set iteration order *)
Theorem C16_total_order : cmp_order var_cmp.
Proof. exact var_cmp_order. Qed.
Print Assumptions C16_total_order.

Theorem C16_sorted_unique : forall l1 l2,
  Permutation l1 l2 -> StronglySorted var_le l1 -> StronglySorted var_le l2 -> l1 = l2.
Proof. exact sorted_unique_strong. Qed.
Print Assumptions C16_sorted_unique.

Theorem C16_construction_independent : forall obj cons obj' cons',
  forallb wf (opt_list obj ++ cons) = true -> vid_consistent (opt_list obj ++ cons) ->
  forallb wf (opt_list obj' ++ cons') = true -> vid_consistent (opt_list obj' ++ cons') ->
  same_names (occurring obj cons) (occurring obj' cons') ->
  problem_variables obj cons = problem_variables obj' cons'.
Proof. exact problem_variables_construction_independent. Qed.
Print Assumptions C16_construction_independent.

(* Python never compares a text run with a number: key positions always align *)
Theorem C16_keys_align : forall x y,
  key_cmp_strict (sort_key x) (sort_key y) = Some (key_cmp (sort_key x) (sort_key y)).
Proof. exact sort_key_never_mixed. Qed.
Print Assumptions C16_keys_align.

(* bounds are read per reported variable, in the reported order *)
Theorem C16_bounds : forall st V, List.length (get_bounds st V) = List.length V /\
  forall i v, nth_error V i = Some v -> nth_error (get_bounds st V) i = Some (lb (st v), ub (st v)).
Proof. exact get_bounds_aligned. Qed.
Print Assumptions C16_bounds.

Example C16_natural_order : sort_vars ["x[10]"; "x[2]"; "x[1]"] = ["x[1]"; "x[2]"; "x[10]"]
  /\ sort_vars ["x1"; "x01"; "x001"] = ["x001"; "x01"; "x1"].
Proof. split; vm_compute; reflexivity. Qed.
Print Assumptions C16_natural_order.

Example C16_reversed_view : problem_variables (Some (VSum 1%N ["x[2]"; "x[1]"; "x[0]"])) [] = ["x[0]"; "x[1]"; "x[2]"].
Proof. vm_compute; reflexivity. Qed.
Print Assumptions C16_reversed_view.
