(* C20 — a failed or interrupted solve leaves the process and the problem intact.
   Statements only; proofs are `exact <lemma>` from FaultProofs.v. *)
From Coq Require Import List Bool.
From Optyx Require Import Fault FaultProofs.

(* whatever raises, wherever, the warning hook is restored *)
Theorem C20_hook_restored : forall w needs_hess fault, hook (fst (solve_scipy w needs_hess fault)) = hook w.
Proof. exact hook_restored. Qed.
Print Assumptions C20_hook_restored.

(* a fault that strikes yields FAILED or the propagated exception, never a normal return *)
Theorem C20_outcome_classes : forall w nh p e, fires w nh p = true ->
  let out := snd (solve_scipy w nh (Some (p, e))) in out = Returned_FAILED \/ out = Propagated e.
Proof. exact outcome_classes. Qed.
Print Assumptions C20_outcome_classes.

Theorem C20_failed_iff_caught_in_solver : forall w needs_hess p e,
  snd (solve_scipy w needs_hess (Some (p, e))) = Returned_FAILED <-> (p = POracle /\ is_exception e = true).
Proof. exact failed_iff. Qed.
Print Assumptions C20_failed_iff_caught_in_solver.

Theorem C20_keyboard_interrupt_propagates : forall w nh p e, fires w nh p = true -> is_exception e = false ->
  snd (solve_scipy w nh (Some (p, e))) = Propagated e.
Proof. exact non_exception_propagates. Qed.
Print Assumptions C20_keyboard_interrupt_propagates.

(* a failed build leaves no partial cache *)
Theorem C20_no_partial_cache : forall w nh fault e, fault = Some (PBuildCache, e) -> solver_cached w = false ->
  solver_cached (fst (solve_scipy w nh fault)) = false.
Proof. exact no_partial_cache. Qed.
Print Assumptions C20_no_partial_cache.

Theorem C20_no_partial_hessian : forall w nh fault e, fault = Some (PBuildHess, e) -> hess_cached w = false ->
  hess_cached (fst (solve_scipy w nh fault)) = false.
Proof. exact no_partial_hess. Qed.
Print Assumptions C20_no_partial_hessian.

(* the next solve - process state, cache flags and outcome - is exactly what it would have been *)
Theorem C20_next_solve_unaffected : forall w nh fault,
  solve_scipy (after_fault w nh fault) nh None = solve_scipy w nh None.
Proof. exact retry_same_result. Qed.
Print Assumptions C20_next_solve_unaffected.

(* LP wrapper: nothing global is touched; outcomes as above *)
Theorem C20_lp_world_untouched : forall w fault, fst (solve_lp w fault) = w.
Proof. exact lp_world_untouched. Qed.
Print Assumptions C20_lp_world_untouched.

(* nested solves restore in stack order *)
Theorem C20_nested : forall w nh fi fo, hook (fst (nested w nh fi fo)) = hook w.
Proof. exact nested_restores. Qed.
Print Assumptions C20_nested.

(* the recursion-limit bracket restores the limit on every exit *)
Theorem C20_recursion_limit : forall current limit fault, fst (with_recursion_limit current limit fault) = current.
Proof. exact recursion_limit_restored. Qed.
Print Assumptions C20_recursion_limit.
