(* C19 — derivative callables stay finite at singular points.  Statements only. *)
From Coq Require Import Reals String List QArith.
From Optyx Require Import Syntax ArrTerm Sanitize SanitizeProofs SolveWrap SolveWrapProofs.
From Optyx.Gen Require Import GenTables GenObligations.
Import ListNotations.
Close Scope Q_scope.

Theorem C19_sanitize_all_finite : forall (T : Type) (zero large neg_large : T) (v : list (xfloat T)),
  forallb is_fin (sanitize zero large neg_large v) = true.
Proof. exact sanitize_all_finite. Qed.
Print Assumptions C19_sanitize_all_finite.

Theorem C19_regular_entries_unchanged : forall T zero large neg_large (v : list (xfloat T)) i (r : T),
  nth_error v i = Some (Fin r) -> nth_error (sanitize zero large neg_large v) i = Some (Fin r).
Proof. exact sanitize_regular_unchanged. Qed.
Print Assumptions C19_regular_entries_unchanged.

Theorem C19_special_values : forall T zero large neg_large (v : list (xfloat T)) i,
  (nth_error v i = Some NaN -> nth_error (sanitize zero large neg_large v) i = Some (Fin zero)) /\
  (nth_error v i = Some PInf -> nth_error (sanitize zero large neg_large v) i = Some (Fin large)) /\
  (nth_error v i = Some NInf -> nth_error (sanitize zero large neg_large v) i = Some (Fin neg_large)).
Proof. exact sanitize_values. Qed.
Print Assumptions C19_special_values.

(* the replacement for infinities is the generated _LARGE_GRADIENT = 1e16 *)
Theorem C19_large_value : Qeq large_gradient (10000000000000000 # 1).
Proof. reflexivity. Qed.
Print Assumptions C19_large_value.

(* every vectorised closure found in the source on this run is guarded ... *)
Theorem C19_every_vectorised_closure_guarded :
  forallb guarded (gen_unary_grad ++ gen_power_grad ++ gen_unary_hess ++ gen_power_hess) = true.
Proof. exact gen_all_guarded. Qed.
Print Assumptions C19_every_vectorised_closure_guarded.

(* ... where guarded means: sanitised, or uniformly bounded over ALL inputs *)
Theorem C19_guarded_meaning : forall ce, guarded ce = true ->
  c_sanitized ce = true \/ (forall k, exists M : R, forall t : R, (Rabs (eden k t (c_body ce)) <= M)%R).
Proof. exact guarded_sound. Qed.
Print Assumptions C19_guarded_meaning.

(* every general path (symbolic gradient, Jacobian, scaled row, fallback, Hessian) returns through the sanitiser *)
Theorem C19_general_paths_sanitized : forallb snd gen_general_paths_sanitized = true.
Proof. exact general_paths_sanitized. Qed.
Print Assumptions C19_general_paths_sanitized.

Example C19_example :
  sanitize 0%Q (10000000000000000 # 1)%Q (- (10000000000000000 # 1))%Q [Fin (3#1)%Q; NaN; PInf; NInf]
  = [Fin (3#1)%Q; Fin 0%Q; Fin (10000000000000000 # 1)%Q; Fin (- (10000000000000000 # 1))%Q].
Proof. reflexivity. Qed.
Print Assumptions C19_example.
