(* C12 — parameter updates are honoured by every later evaluation and solve.
   Statements only; proofs are `exact <lemma>`. *)
From Coq Require Import Reals QArith Qreals String List.
From Optyx Require Import Syntax Occ SemR Degree Autodiff Compile CompileProofs Params ParamProofs.
Import ListNotations.
Close Scope Q_scope.

(* evaluation under the valuation in force = evaluation of the fresh model with constants *)
Theorem C12_evaluation : forall pq e rho penv',
  dom rho (fun p => Q2R (pq p)) e ->
  evalR rho (fun p => Q2R (pq p)) e = evalR rho penv' (subst pq e).
Proof. exact subst_eval. Qed.
Print Assumptions C12_evaluation.

(* after ANY sequence of updates the valuation in force is the last value set for each parameter *)
Theorem C12_last_update_wins : forall pq0 sets p q, after_sets pq0 (sets ++ [(p, q)]) p = q.
Proof. exact after_sets_last. Qed.
Print Assumptions C12_last_update_wins.

Theorem C12_history : forall pq0 sets e rho penv',
  dom rho (fun p => Q2R (after_sets pq0 sets p)) e ->
  evalR rho (fun p => Q2R (after_sets pq0 sets p)) e = evalR rho penv' (subst (after_sets pq0 sets) e).
Proof. exact observation_after_updates. Qed.
Print Assumptions C12_history.

(* compiled callables: ONE closure, built without looking at any parameter value, serves
   every later valuation (so nothing computed from an earlier value can be cached in it) *)
Theorem C12_compiled : forall V e c x,
  wf e = true -> NoDup V -> List.length x = List.length V -> build V e = Some c ->
  forall penv, Compile.run x penv c = evalR (env_of V x) penv e.
Proof. exact one_closure_all_params. Qed.
Print Assumptions C12_compiled.

(* derivatives: the gradient tree (which holds the parameter, not its value) evaluates under the
   valuation in force to what the fresh constant model's gradient evaluates to *)
Theorem C12_derivatives : forall ln2c ln10c pq v e rho penv',
  wf e = true -> regular rho (fun p => Q2R (pq p)) e ->
  evalR rho (fun p => Q2R (pq p)) (grad ln2c ln10c v e) =
  evalR rho penv' (grad ln2c ln10c v (subst pq e)).
Proof. exact grad_subst_eval. Qed.
Print Assumptions C12_derivatives.

(* a model mentioning a parameter is never classified linear/quadratic: no LP data and no
   constant Jacobian is ever extracted from a parameter value *)
Theorem C12_never_linear : forall e, wf e = true -> has_param e = true -> degree e = None.
Proof. exact has_param_degree. Qed.
Print Assumptions C12_never_linear.

Theorem C12_fresh_model_has_no_parameters : forall pq e, has_param (subst pq e) = false.
Proof. exact subst_no_param. Qed.
Print Assumptions C12_fresh_model_has_no_parameters.
