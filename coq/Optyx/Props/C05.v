(* C05 — the linear program optyx extracts is the model the user wrote.
   Only statements; proofs are `exact <lemma>` from LinearProofs.v. *)
From Coq Require Import Reals QArith Qreals String List.
From Optyx Require Import Syntax Occ SemR Degree Linear LinearProofs.
Import ListNotations.
Close Scope Q_scope.

(* every linear expression is its extracted coefficients applied to the point plus
   its extracted constant, in ANY duplicate-free variable order containing its variables *)
Theorem C05_linear_decomposition : forall e, wf e = true -> nodiv0 e = true -> is_linear e = true ->
  forall rho penv (V : list string), NoDup V -> incl (vars e) V ->
  evalR rho penv e = (dotR (map Q2R (all_coefs V e)) (map rho V) + Q2R (cterm e))%R.
Proof. exact linear_decomposition. Qed.
Print Assumptions C05_linear_decomposition.

(* cost vector applied to the point plus the objective's constant equals the objective *)
Theorem C05_objective : forall V obj maximize cons, problem_ok V obj cons ->
  let lp := extract_lp V obj maximize cons in
  forall rho penv, (dotR (map Q2R (lp_c lp)) (map rho V) + Q2R (lp_c0 lp))%R = evalR rho penv obj.
Proof. exact LinearProofs.C05_objective. Qed.
Print Assumptions C05_objective.

(* rows: constraint order kept, >= rows negated into <= form, equalities kept;
   each row and right-hand side reproduce the user's constraint expression *)
Theorem C05_rows : forall V obj maximize cons, problem_ok V obj cons ->
  let lp := extract_lp V obj maximize cons in
  lp_Aub lp = map (fun c => fst (ub_row V c)) (filter is_ub cons) /\
  lp_bub lp = map (fun c => snd (ub_row V c)) (filter is_ub cons) /\
  lp_Aeq lp = map (fun c => fst (eq_row V c)) (filter is_eq cons) /\
  lp_beq lp = map (fun c => snd (eq_row V c)) (filter is_eq cons) /\
  (forall e s, In (e, s) cons -> forall rho penv,
      match s with
      | Le => (dotR (map Q2R (fst (ub_row V (e,s)))) (map rho V) - Q2R (snd (ub_row V (e,s))))%R = evalR rho penv e
      | Ge => (dotR (map Q2R (fst (ub_row V (e,s)))) (map rho V) - Q2R (snd (ub_row V (e,s))))%R = (- evalR rho penv e)%R
      | Eq => (dotR (map Q2R (fst (eq_row V (e,s)))) (map rho V) - Q2R (snd (eq_row V (e,s))))%R = evalR rho penv e
      end).
Proof. exact LinearProofs.C05_rows. Qed.
Print Assumptions C05_rows.

(* columns are aligned with the reported variable names; shapes are consistent *)
Theorem C05_alignment : forall V obj maximize cons,
  wf obj = true -> (forall c, In c cons -> wf (fst c) = true) ->
  let lp := extract_lp V obj maximize cons in
  lp_names lp = V /\ List.length (lp_c lp) = List.length V /\
  Forall (fun row => List.length row = List.length V) (lp_Aub lp) /\
  Forall (fun row => List.length row = List.length V) (lp_Aeq lp) /\
  List.length (lp_Aub lp) = List.length (lp_bub lp) /\ List.length (lp_Aeq lp) = List.length (lp_beq lp).
Proof. exact LinearProofs.C05_alignment. Qed.
Print Assumptions C05_alignment.

(* the O(1) shortcuts return what the general walker returns whenever the vector
   operand is the problem's variable list, and the code's guard implies exactly that
   for monotone views (which is what slicing produces) *)
Theorem C05_shortcuts : forall V e r, wf e = true -> NoDup V ->
  fast_path V e = Some r -> aligned V e = true -> Forall2 Qeq r (all_coefs V e).
Proof. exact fast_path_correct. Qed.
Print Assumptions C05_shortcuts.

Theorem C05_guard_implies_aligned : forall V xs, NoDup V -> NoDup xs -> incl xs V -> monotone_in V xs ->
  covers V xs = true -> xs = V.
Proof. exact covers_implies_aligned. Qed.
Print Assumptions C05_guard_implies_aligned.

(* sign handling for maximise and the reported objective value (constant included) *)
Theorem C05_reported_value : forall V obj maximize cons, problem_ok V obj cons ->
  let lp := extract_lp V obj maximize cons in
  forall (xq : list Q) rho penv, map rho V = map Q2R xq ->
  Q2R (reported_objective lp (dotQ (linprog_c lp) xq)) = evalR rho penv obj.
Proof. exact LinearProofs.C05_reported_value. Qed.
Print Assumptions C05_reported_value.

(* non-vacuity: a concrete problem meeting every hypothesis *)
Example C05_example : problem_ok exV exObj exCons.
Proof. exact ex_problem_ok. Qed.
Print Assumptions C05_example.
