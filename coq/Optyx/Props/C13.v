(* C13 — editing a model invalidates everything derived from the old model.
   Only statements; proofs are `exact <lemma>` from ProblemSMProofs.v. *)
From Coq Require Import String List QArith.
From Optyx Require Import Syntax Linear Vars SolveWrap ProblemSM ProblemSMProofs.
From Optyx.Gen Require Import GenTables.
Import ListNotations.
Close Scope Q_scope.

(* after ANY interleaving of objective / sense / constraint / bound edits, reads and
   solves with any methods, whatever is cached was derived from the CURRENT model *)
Theorem C13_caches_never_stale : forall ops st,
  cache_inv (fst (fst (run_ops bounds_methods hessian_methods init st ops))).
Proof. exact (reachable_inv bounds_methods hessian_methods). Qed.
Print Assumptions C13_caches_never_stale.

(* every solve, in every reachable state, hands the solver exactly what a freshly
   constructed problem with the current objective, sense, constraints and bounds would *)
Theorem C13_solve_equals_fresh : forall ops st0 m,
  let '(s, st, _) := run_ops bounds_methods hessian_methods init st0 ops in
  snd (step bounds_methods hessian_methods st s (OSolve m)) =
  snd (step bounds_methods hessian_methods st (fresh s) (OSolve m)).
Proof. exact (reachable_solve_fresh bounds_methods hessian_methods). Qed.
Print Assumptions C13_solve_equals_fresh.

Theorem C13_step_preserves : forall st s o, cache_inv s ->
  cache_inv (fst (step bounds_methods hessian_methods st s o)).
Proof. exact (step_inv bounds_methods hessian_methods). Qed.
Print Assumptions C13_step_preserves.

(* bounds reach the solver from the variables at solve time, never from a cache *)
Theorem C13_current_bounds : forall st s o m c aub bub aeq beq bs c0 mx mm,
  snd (do_lp st s o m) = OLinprog c aub bub aeq beq bs c0 mx mm ->
  bs = cur_bounds st (fst (variables_of s)).
Proof. exact solve_uses_current_bounds. Qed.
Print Assumptions C13_current_bounds.

Example C13_history :
  let x := Var "x" in
  let ops := [OMin x; OSolve "auto"; OSetUb "x" (Some (2#1)%Q); OMax x; OSolve "auto"] in
  match run_ops [] [] init [("x"%string, (Some 0%Q, Some 1%Q))] ops with
  | (_, _, [_; OLinprog c1 _ _ _ _ b1 _ mx1 _; _; _; OLinprog c2 _ _ _ _ b2 _ mx2 _]) =>
      mx1 = false /\ mx2 = true /\ b1 = [(Some 0%Q, Some 1%Q)] /\ b2 = [(Some 0%Q, Some (2#1)%Q)]
  | _ => False
  end.
Proof. exact nonvacuous_history. Qed.
Print Assumptions C13_history.

(* a rejected call - minimize / maximize of a non-expression, subject_to of a list holding an invalid element - is invisible:
   the history without it ends in the same state and store, and every other operation observes the same thing *)
Theorem C13_rejected_call_is_transparent : forall ops1 ops2 s st,
  let '(sa, sta, oa) := run_ops bounds_methods hessian_methods s st (ops1 ++ ORejected :: ops2)%list in
  let '(sb, stb, ob) := run_ops bounds_methods hessian_methods s st (ops1 ++ ops2)%list in
  sa = sb /\ sta = stb /\
  oa = (firstn (List.length ops1) ob ++ ONone :: skipn (List.length ops1) ob)%list.
Proof. exact (rejected_transparent bounds_methods hessian_methods). Qed.
Print Assumptions C13_rejected_call_is_transparent.
