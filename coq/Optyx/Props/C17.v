(* C17 — symbolic and compiled Hessians are the true symmetric second derivatives.
   Statements only; proofs are `exact <lemma>` from HessianProofs.v. *)
From Coquelicot Require Import Coquelicot.
From Coq Require Import Reals QArith String List.
From Optyx Require Import Syntax Occ SemR Autodiff AutodiffLemmas AutodiffProofs Compile ArrTerm Jacobian HessianProofs.
From Optyx.Gen Require Import GenTables GenObligations.
Import ListNotations.
Close Scope Q_scope.

(* entry (i,j) of the symbolic Hessian is the V_j-derivative of the V_i-derivative tree's value ... *)
Theorem C17_symbolic_entry : forall ln2c ln10c e vi vj rho penv,
  wf e = true -> exact_ops e = true -> dot_same_ok e = true ->
  regular rho penv (grad ln2c ln10c vi e) ->
  is_derive (fun t => evalR (upd rho vj t) penv (grad ln2c ln10c vi e)) (rho vj)
            (evalR rho penv (grad ln2c ln10c vj (grad ln2c ln10c vi e))).
Proof. exact hessian_entry_correct. Qed.
Print Assumptions C17_symbolic_entry.

(* ... and therefore the second partial derivative d/dV_j (d/dV_i [[e]]) *)
Theorem C17_second_partial : forall ln2c ln10c e vi vj rho penv,
  wf e = true -> exact_ops e = true -> dot_same_ok e = true ->
  locally (rho vj) (fun t => regular (upd rho vj t) penv e) ->
  regular rho penv (grad ln2c ln10c vi e) ->
  is_derive (fun t => Derive (fun s => evalR (upd (upd rho vj t) vi s) penv e) (upd rho vj t vi))
            (rho vj) (evalR rho penv (grad ln2c ln10c vj (grad ln2c ln10c vi e))).
Proof. exact hessian_entry_second_partial. Qed.
Print Assumptions C17_second_partial.

(* the matrix returned by the compiled callable is symmetric BY CONSTRUCTION *)
Theorem C17_symmetric : forall x penv pt ut upper M i j,
  run_hess x penv pt ut (HGeneral upper) = Some M ->
  (i < length x)%nat -> (j < length x)%nat ->
  nth j (nth i M []) 0%R = nth i (nth j M []) 0%R.
Proof. exact hess_general_symmetric. Qed.
Print Assumptions C17_symmetric.

(* upper-triangle entries are the values of the symbolic entries, for any duplicate-free V *)
Theorem C17_compiled_upper : forall ln2c ln10c tbl pt ut e V x penv upper M i j,
  wf e = true -> NoDup V -> length x = length V ->
  compile_hessian ln2c ln10c tbl e V = HGeneral upper ->
  run_hess x penv pt ut (HGeneral upper) = Some M ->
  (i <= j)%nat -> (j < length V)%nat ->
  nth j (nth i M []) 0%R =
  evalR (env_of V x) penv (grad ln2c ln10c (nth j V ""%string) (grad ln2c ln10c (nth i V ""%string) e)).
Proof. exact hess_general_upper. Qed.
Print Assumptions C17_compiled_upper.

(* diagonal shortcuts over the GENERATED closures agree with the general path, full and sparse V *)
Theorem C17_power_shortcut : forall ln2c ln10c tbl ut vid xs k V x penv full idx k' M i j,
  NoDup V -> length x = length V ->
  compile_hessian ln2c ln10c tbl (VPowSum vid xs k) V = HPower full idx k' ->
  run_hess x penv gen_power_hess ut (HPower full idx k') = Some M ->
  (i < length V)%nat -> (j < length V)%nat ->
  nth j (nth i M []) 0%R =
  evalR (env_of V x) penv (grad ln2c ln10c (nth j V ""%string) (grad ln2c ln10c (nth i V ""%string) (VPowSum vid xs k))).
Proof. exact hess_power_agrees. Qed.
Print Assumptions C17_power_shortcut.

Theorem C17_unary_shortcut : forall ln2c ln10c tbl pt vid xs o V x penv full idx o' M i j,
  NoDup V -> length x = length V ->
  compile_hessian ln2c ln10c tbl (VUnSum vid xs o) V = HUnary full idx o' ->
  run_hess x penv pt gen_unary_hess (HUnary full idx o') = Some M ->
  (i < length V)%nat -> (j < length V)%nat ->
  (In (nth i V ""%string) xs -> uop_reg o (nth i x 0%R)) ->
  nth j (nth i M []) 0%R =
  evalR (env_of V x) penv (grad ln2c ln10c (nth j V ""%string) (grad ln2c ln10c (nth i V ""%string) (VUnSum vid xs o))).
Proof. exact hess_unary_agrees. Qed.
Print Assumptions C17_unary_shortcut.

(* maximise f hands over the Hessian of -f, which is the negated Hessian *)
Theorem C17_maximize : forall ln2c ln10c e vi vj rho penv,
  evalR rho penv (grad ln2c ln10c vj (grad ln2c ln10c vi (Un Neg e)))
  = (- evalR rho penv (grad ln2c ln10c vj (grad ln2c ln10c vi e)))%R.
Proof. exact hessian_neg. Qed.
Print Assumptions C17_maximize.

(* every traversal / threshold returns the same derivative tree *)
Theorem C17_threshold_free : forall ln2c ln10c v th e, gradient ln2c ln10c v th e = grad ln2c ln10c v e.
Proof. exact HessianProofs.gradient_eq_grad. Qed.
Print Assumptions C17_threshold_free.
