(* placeholder until AutodiffProofs.v lands: statements proved so far *)
From Optyx Require Import Syntax Machine Autodiff MachineProofs.
Theorem C02_iter_machine : forall A leaf fbin funa e, fold_iter A leaf fbin funa e = Some (fold_rec A leaf fbin funa e).
Proof. exact fold_iter_correct. Qed.
Print Assumptions C02_iter_machine.
