(* C02 — the symbolic gradient is the true partial derivative.
   Only statements; proofs are `exact <lemma>` from AutodiffProofs.v / MachineProofs.v. *)
From Coquelicot Require Import Coquelicot.
From Coq Require Import Reals QArith String List.
From Optyx Require Import Syntax SemR Machine Autodiff MachineProofs AutodiffLemmas AutodiffProofs.
From Optyx.Gen Require Import GenTables.
Close Scope Q_scope.

(* at every regular point the derivative tree evaluates to the true partial
   derivative (Coquelicot's is_derive), for every operator, elementary function,
   vector and matrix reduction and all their compositions *)
Theorem C02_gradient_correct : forall ln2c ln10c e v rho penv,
  wf e = true -> exact_ops e = true -> dot_same_ok e = true -> regular rho penv e ->
  is_derive (fun t : R => evalR (upd rho v t) penv e) (rho v)
            (evalR rho penv (grad ln2c ln10c v e)).
Proof. exact grad_correct. Qed.
Print Assumptions C02_gradient_correct.

(* identically zero - literally the constant 0 - for variables that do not occur *)
Theorem C02_absent_variable : forall ln2c ln10c e v,
  mentions v e = false -> grad ln2c ln10c v e = Const 0%Q.
Proof. exact grad_absent. Qed.
Print Assumptions C02_absent_variable.

(* derivative trees stay inside the fragment, so they can be differentiated again *)
Theorem C02_closed : forall ln2c ln10c v e,
  (wf e = true -> wf (grad ln2c ln10c v e) = true) /\
  (exact_ops e = true -> exact_ops (grad ln2c ln10c v e) = true) /\
  (dot_same_ok e = true -> dot_same_ok (grad ln2c ln10c v e) = true).
Proof. intros; repeat split; [apply grad_wf | apply grad_exact_ops | apply grad_dot_same_ok]. Qed.
Print Assumptions C02_closed.

(* the algebraic simplifications around 0 and 1 preserve the value *)
Theorem C02_simplifiers : forall rho penv a b,
  evalR rho penv (s_add a b) = (evalR rho penv a + evalR rho penv b)%R /\
  evalR rho penv (s_sub a b) = (evalR rho penv a - evalR rho penv b)%R /\
  evalR rho penv (s_mul a b) = (evalR rho penv a * evalR rho penv b)%R /\
  evalR rho penv (s_div a b) = (evalR rho penv a / evalR rho penv b)%R /\
  evalR rho penv (s_neg a) = (- evalR rho penv a)%R.
Proof. intros; repeat split; [apply s_add_ev | apply s_sub_ev | apply s_mul_ev | apply s_div_ev | apply s_neg_ev]. Qed.
Print Assumptions C02_simplifiers.

(* the explicit-stack traversal returns the same tree as the recursive one *)
Theorem C02_iter_machine : forall A leaf fbin funa e,
  fold_iter A leaf fbin funa e = Some (fold_rec A leaf fbin funa e).
Proof. exact fold_iter_correct. Qed.
Print Assumptions C02_iter_machine.

(* non-vacuity: sin(x) * y^2 at (1, 3) meets every hypothesis *)
Example C02_example : is_derive (fun t : R => (sin 1 * powQ t 2)%R) 3 (sin 1 * (Q2R 2 * 3))%R.
Proof. exact ex1_derive_y. Qed.
Print Assumptions C02_example.
