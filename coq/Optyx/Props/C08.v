(* C08 — linear problems are solved to the true LP optimum with the true status.
   optyx's side is proved; linprog itself is an oracle (contract: it returns the
   verdict and optimal value of the LP it is given).  Statements only. *)
From Coq Require Import Reals QArith Qreals String List.
From Optyx Require Import Syntax Occ SemR Degree Linear LinearProofs Vars SolveWrap SolveWrapProofs LPSpec ProblemSM ProblemSMProofs.
From Optyx.Gen Require Import GenTables.
Import ListNotations.
Close Scope Q_scope.

(* the data handed to linprog denote the user's model: objective ... *)
Theorem C08_extract_objective : forall V obj maximize cons, problem_ok V obj cons ->
  let lp := extract_lp V obj maximize cons in
  forall rho penv, (dotR (map Q2R (Linear.lp_c lp)) (map rho V) + Q2R (lp_c0 lp))%R = evalR rho penv obj.
Proof. exact LinearProofs.C05_objective. Qed.
Print Assumptions C08_extract_objective.

(* ... and feasible set: each row is satisfied exactly when the user's constraint is *)
Theorem C08_extract_rows_sense : forall V obj cons, problem_ok V obj cons ->
  forall e s, In (e, s) cons -> forall rho penv,
  match s with
  | Le => (dotR (map Q2R (fst (ub_row V (e, s)))) (map rho V) <= Q2R (snd (ub_row V (e, s))) <-> evalR rho penv e <= 0)%R
  | Ge => (dotR (map Q2R (fst (ub_row V (e, s)))) (map rho V) <= Q2R (snd (ub_row V (e, s))) <-> evalR rho penv e >= 0)%R
  | Eq => (dotR (map Q2R (fst (eq_row V (e, s)))) (map rho V) = Q2R (snd (eq_row V (e, s))) <-> evalR rho penv e = 0)%R
  end.
Proof. exact LinearProofs.C05_rows_sense. Qed.
Print Assumptions C08_extract_rows_sense.

(* any two matrix forms denoting the same model have the same verdict and optimum:
   it does not matter which correct reference the LP solver is given *)
Theorem C08_any_reference_agrees : forall a b, same_lp a b ->
  (forall x, is_min a x <-> is_min b x) /\ (infeasible a <-> infeasible b) /\
  (unbounded_below a <-> unbounded_below b) /\ (forall v, min_value a v <-> min_value b v).
Proof.
  intros a b H. repeat split; intros; try (apply (same_lp_min a b); auto); try (apply (same_lp_infeasible a b); auto);
    try (apply (same_lp_unbounded a b); auto); try (apply (same_lp_value a b); auto).
Qed.
Print Assumptions C08_any_reference_agrees.

(* maximise is minimise of the negation, and the reported value undoes the flip and adds the constant *)
Theorem C08_maximize : forall p x, is_max p x <-> is_min (negate p) x.
Proof. exact max_is_min_of_negation. Qed.
Print Assumptions C08_maximize.

Theorem C08_reported_value : forall V obj maximize cons, problem_ok V obj cons ->
  let lp := extract_lp V obj maximize cons in
  forall (xq : list Q) rho penv, map rho V = map Q2R xq ->
  Q2R (reported_objective lp (dotQ (linprog_c lp) xq)) = evalR rho penv obj.
Proof. exact LinearProofs.C05_reported_value. Qed.
Print Assumptions C08_reported_value.

(* the status reported is linprog's verdict, by the generated chain *)
Theorem C08_status_optimal : forall maximize c0 names r,
  o_status (post_linprog gen_lp_chain gen_lp_default maximize c0 names r) = OPTIMAL <-> r_success r = true.
Proof. exact lp_optimal_iff_success. Qed.
Print Assumptions C08_status_optimal.

Theorem C08_status_map : forall maximize c0 names r, r_success r = false ->
  o_status (post_linprog gen_lp_chain gen_lp_default maximize c0 names r) =
  if Z.eqb (r_status r) 2 then INFEASIBLE else if Z.eqb (r_status r) 3 then UNBOUNDED
  else if Z.eqb (r_status r) 1 then MAX_ITERATIONS else FAILED.
Proof. exact lp_status_map. Qed.
Print Assumptions C08_status_map.

(* routing: auto on a linear model and every LP method name reach the LP wrapper *)
Theorem C08_routing : forall is_lp auto_nlp m,
  In m ["linprog"; "highs"; "highs-ds"; "highs-ipm"]%string -> exists lm, route_of is_lp auto_nlp m = RouteLP lm.
Proof. exact routing_lp_methods. Qed.
Print Assumptions C08_routing.

Theorem C08_routing_auto : forall auto_nlp, route_of true auto_nlp "auto" = RouteLP None.
Proof. intros. reflexivity. Qed.
Print Assumptions C08_routing_auto.

(* repeated solves: what reaches linprog from the cache equals what a fresh extraction gives *)
Theorem C08_repeat : forall ops st0 m,
  let '(s, st, _) := run_ops bounds_methods hessian_methods init st0 ops in
  snd (step bounds_methods hessian_methods st s (OSolve m)) =
  snd (step bounds_methods hessian_methods st (fresh s) (OSolve m)).
Proof. exact (reachable_solve_fresh bounds_methods hessian_methods). Qed.
Print Assumptions C08_repeat.
