(* C07 — reported objective value and variable values are self-consistent.  Statements only. *)
From Coq Require Import Reals QArith Qreals String List.
From Optyx Require Import Syntax Occ SemR Vars Linear LinearProofs SolveWrap SolveWrapProofs Compile CompileProofs.
From Optyx.Gen Require Import GenTables.
Import ListNotations.
Close Scope R_scope.
Open Scope Q_scope.

(* NLP path: if the oracle's fun is the value of what it was handed (s * objective),
   the reported value is the objective's value, for both orientations *)
Theorem C07_nlp_objective : forall (maximize : bool) V r viol calls (objx : Q),
  r_fun r = Some (if maximize then - objx else objx) ->
  exists o, o_objective (finish gen_status_chain gen_status_default maximize V r viol calls) = Some o /\ o == objx.
Proof. exact nlp_objective_value. Qed.
Print Assumptions C07_nlp_objective.

(* what is handed over really is +/- the objective: the compiled callable denotes the tree (C01) *)
Theorem C07_obj_fn_denotes : forall V e c x penv,
  wf e = true -> NoDup V -> List.length x = List.length V -> build V e = Some c ->
  Compile.run x penv c = evalR (env_of V x) penv e.
Proof. exact build_correct. Qed.
Print Assumptions C07_obj_fn_denotes.

(* LP path: the report adds the objective's constant and undoes the sign flip;
   with linprog's fun = c.x it is the objective at the returned point *)
Theorem C07_lp_objective : forall maximize c0 names r f,
  r_fun r = Some f ->
  o_objective (post_linprog gen_lp_chain gen_lp_default maximize c0 names r) = Some ((if maximize then - f else f) + c0).
Proof. exact lp_objective_value. Qed.
Print Assumptions C07_lp_objective.

Theorem C07_lp_objective_is_objective : forall V obj maximize cons, problem_ok V obj cons ->
  let lp := extract_lp V obj maximize cons in
  forall (xq : list Q) rho penv, map rho V = map Q2R xq ->
  Q2R (reported_objective lp (dotQ (linprog_c lp) xq)) = evalR rho penv obj.
Proof. exact LinearProofs.C05_reported_value. Qed.
Print Assumptions C07_lp_objective_is_objective.

(* exactly one entry per problem variable, in problem order, on both paths *)
Theorem C07_keys : forall maximize V r viol calls x,
  r_x r = Some x -> List.length x = List.length V ->
  map fst (o_values (finish gen_status_chain gen_status_default maximize V r viol calls)) = V.
Proof. exact values_keys. Qed.
Print Assumptions C07_keys.

Theorem C07_lp_keys : forall maximize c0 names r x,
  r_x r = Some x -> List.length x = List.length names ->
  map fst (o_values (post_linprog gen_lp_chain gen_lp_default maximize c0 names r)) = names.
Proof. exact lp_values_keys. Qed.
Print Assumptions C07_lp_keys.

(* handles: each element of a vector / matrix handle retrieves its own entry, in the
   handle's own order and shape (views: reversed, stepped, transposed, symmetric ...) *)
Theorem C07_vector_handle : forall V x names,
  NoDup V -> List.length x = List.length V -> (forall n, In n names -> In n V) ->
  forall k n, nth_error names k = Some n ->
  exists i, nth_error V i = Some n /\ nth_error (get_vector (combine V x) names) k = Some (nth_error x i).
Proof. exact get_vector_spec. Qed.
Print Assumptions C07_vector_handle.

Theorem C07_matrix_shape : forall vals rows,
  List.length (get_matrix vals rows) = List.length rows /\
  forall i r, nth_error rows i = Some r ->
              exists r', nth_error (get_matrix vals rows) i = Some r' /\ List.length r' = List.length r.
Proof. exact get_matrix_shape. Qed.
Print Assumptions C07_matrix_shape.

Example C07_example :
  let r := {| r_success := true; r_kws := []; r_status := 0; r_x := Some [4]; r_fun := Some (-4) |} in
  o_objective (post_linprog gen_lp_chain gen_lp_default true 5 ["x"%string] r) = Some (- - 4 + 5).
Proof. reflexivity. Qed.
Print Assumptions C07_example.
