(* C10 — constraints mean the relation the user wrote, also inside the solver.  Statements only. *)
From Coquelicot Require Import Coquelicot.
From Coq Require Import Reals String List QArith.
From Optyx Require Import Syntax SemR Linear SolveWrap Constraint ConstraintProofs.
Import ListNotations.
Close Scope Q_scope.
Open Scope R_scope.

Theorem C10_violation : forall rho penv lhs s rhs,
  let L := evalR rho penv lhs in let R := evalR rho penv rhs in
  violationR s (evalR rho penv (fst (make_constraint lhs s rhs))) =
  match s with Le => Rmax 0 (L - R) | Ge => Rmax 0 (R - L) | Eq => Rabs (L - R) end.
Proof. exact violation_meaning. Qed.
Print Assumptions C10_violation.

Theorem C10_satisfied_iff : forall s (L R tol : R), 0 <= tol ->
  (satisfiedR s (L - R) tol <->
   match s with Le => L <= R + tol | Ge => L + tol >= R | Eq => Rabs (L - R) <= tol end).
Proof. exact satisfied_iff. Qed.
Print Assumptions C10_satisfied_iff.

Theorem C10_zero_violation_iff_relation : forall s (L R : R),
  violationR s (L - R) = 0 <-> match s with Le => L <= R | Ge => L >= R | Eq => L = R end.
Proof. exact violation_zero_iff. Qed.
Print Assumptions C10_zero_violation_iff_relation.

(* inside the solver: non-negative (zero) exactly on the feasible set *)
Theorem C10_scipy_feasible_set : forall s (L R : R),
  match dict_type s with Ineq => 0 <= dict_fun s (L - R) | EqC => dict_fun s (L - R) = 0 end
  <-> match s with Le => L <= R | Ge => L >= R | Eq => L = R end.
Proof. exact dict_feasible_iff. Qed.
Print Assumptions C10_scipy_feasible_set.

(* the Jacobian handed over is the derivative of the function handed over *)
Theorem C10_scipy_jacobian : forall s (f : R -> R) (x df : R),
  is_derive f x df -> is_derive (fun t => dict_fun s (f t)) x (match s with Le => - df | _ => df end).
Proof. exact dict_jac_is_derivative. Qed.
Print Assumptions C10_scipy_jacobian.

(* element-wise: one constraint per element, position by position; never a silent truncation *)
Theorem C10_elementwise : forall ls s rs cs,
  vector_constraint ls s (OVector rs) = Built cs ->
  List.length cs = List.length ls /\ List.length rs = List.length ls /\
  forall i l r, nth_error ls i = Some l -> nth_error rs i = Some r -> nth_error cs i = Some (make_constraint l s r).
Proof. exact vector_constraint_elementwise. Qed.
Print Assumptions C10_elementwise.

Theorem C10_shape_mismatch_rejected : forall ls s rs,
  List.length rs <> List.length ls -> vector_constraint ls s (OVector rs) = DimMismatch.
Proof. exact vector_constraint_mismatch. Qed.
Print Assumptions C10_shape_mismatch_rejected.

Theorem C10_reflected : forall s (L R : R),
  match flip s with Le => R <= L | Ge => R >= L | Eq => R = L end <->
  match s with Le => L <= R | Ge => L >= R | Eq => L = R end.
Proof. exact flip_meaning. Qed.
Print Assumptions C10_reflected.

(* the list handed to the solver: one dict per written relation, position by position, and a point passes all dicts
   exactly when every written relation holds at it (nothing skipped, merged or re-ordered) *)
Theorem C10_handover_one_per_relation : forall cs i c, nth_error cs i = Some c ->
  List.length (scipy_constraints cs) = List.length cs /\
  nth_error (scipy_constraints cs) i = Some (dict_type (snd c), c).
Proof. intros cs i c H. split; [exact (handover_length cs) | exact (handover_nth cs i c H)]. Qed.
Print Assumptions C10_handover_one_per_relation.

Theorem C10_handover_feasible_set : forall rho penv cs,
  List.Forall (dict_accepts rho penv) (scipy_constraints cs) <-> List.Forall (relation_holds rho penv) cs.
Proof. exact handover_feasible_iff. Qed.
Print Assumptions C10_handover_feasible_set.

Example C10_example : violationR Le (3 - 1) = 2 /\ violationR Ge (3 - 1) = 0 /\ violationR Eq (1 - 3) = 2.
Proof. exact nonvacuous. Qed.
Print Assumptions C10_example.
