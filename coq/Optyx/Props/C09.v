(* C09 — nonlinear solves are a transparent wrapper over SciPy (PARTIAL: optyx's side).  Statements only. *)
From Coquelicot Require Import Coquelicot.
From Coq Require Import Reals QArith String List.
From Optyx Require Import Syntax Occ SemR Autodiff Compile CompileProofs AutodiffLemmas AutodiffProofs Vars SolveWrap SolveWrapProofs.
From Optyx.Gen Require Import GenTables.
Import ListNotations.
Close Scope Q_scope.

(* fun: the callable handed over denotes the objective tree it was compiled from (+/- objective) *)
Theorem C09_fun : forall V e c x penv,
  wf e = true -> NoDup V -> List.length x = List.length V -> build V e = Some c ->
  Compile.run x penv c = evalR (env_of V x) penv e.
Proof. exact build_correct. Qed.
Print Assumptions C09_fun.

(* maximise: the tree handed over is the negation, whose value is the negated objective *)
Theorem C09_negation : forall rho penv e, evalR rho penv (Un Neg e) = (- evalR rho penv e)%R.
Proof. reflexivity. Qed.
Print Assumptions C09_negation.

(* jac: entries are values of the model gradient, which is the true partial derivative *)
Theorem C09_gradient : forall ln2c ln10c e v rho penv,
  wf e = true -> exact_ops e = true -> dot_same_ok e = true -> regular rho penv e ->
  is_derive (fun t : R => evalR (upd rho v t) penv e) (rho v) (evalR rho penv (grad ln2c ln10c v e)).
Proof. exact grad_correct. Qed.
Print Assumptions C09_gradient.

(* bounds: handed over exactly for the generated bounds-capable methods *)
Theorem C09_bounds : forall method bounds, bounds <> [] ->
  bounds_arg bounds_methods method bounds = if mem method bounds_methods then Some bounds else None.
Proof. exact bounds_arg_spec. Qed.
Print Assumptions C09_bounds.

(* the default starting point lies within the declared bounds *)
Theorem C09_start_within_bounds : forall b,
  (forall l u, b = (Some l, Some u) -> (l <= u)%Q -> (l <= initial_coord b)%Q /\ (initial_coord b <= u)%Q) /\
  (forall l, b = (Some l, None) -> (l <= initial_coord b)%Q) /\
  (forall u, b = (None, Some u) -> (initial_coord b <= u)%Q).
Proof. exact initial_point_within_bounds. Qed.
Print Assumptions C09_start_within_bounds.

(* the answer is mapped back without changing the point; the objective is reported in the user's orientation *)
Theorem C09_result_objective : forall (maximize : bool) V r viol calls (objx : Q),
  r_fun r = Some (if maximize then (- objx)%Q else objx) ->
  exists o, o_objective (finish gen_status_chain gen_status_default maximize V r viol calls) = Some o /\ (o == objx)%Q.
Proof. exact nlp_objective_value. Qed.
Print Assumptions C09_result_objective.

Theorem C09_result_values : forall maximize V r viol calls x,
  r_x r = Some x -> List.length x = List.length V ->
  map fst (o_values (finish gen_status_chain gen_status_default maximize V r viol calls)) = V.
Proof. exact values_keys. Qed.
Print Assumptions C09_result_values.
