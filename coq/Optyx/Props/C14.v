(* C14 — independent models do not interfere through process-wide caches.
   Statements only; proofs are `exact <lemma>` from CachesProofs.v. *)
From Coq Require Import String List Arith NArith.
From Optyx Require Import Syntax Autodiff Compile Degree Caches CachesProofs.
From Optyx.Gen Require Import GenTables.
Import ListNotations.

(* for ANY capacity (in particular the generated ones) and ANY sequence of calls coming
   from any number of models, what the cache returns is what the uncached function returns *)
Theorem C14_compile_cache_transparent : forall expr_of cap ks,
  Forall through_cache ks ->
  fst (fst (calls compile_key (option clo) compile_key_eqb (f_compile expr_of) cap [] ks))
  = map (f_compile expr_of) ks.
Proof. exact compile_cache_transparent. Qed.
Print Assumptions C14_compile_cache_transparent.

Theorem C14_gradient_cache_transparent : forall ln2c ln10c expr_of cap ks,
  fst (fst (calls gradient_key expr gradient_key_eqb (f_grad ln2c ln10c expr_of) cap [] ks))
  = map (f_grad ln2c ln10c expr_of) ks.
Proof. exact gradient_cache_transparent. Qed.
Print Assumptions C14_gradient_cache_transparent.

Theorem C14_degree_cache_transparent : forall expr_of cap ks,
  fst (fst (calls degree_key (option nat) degree_key_eqb (f_degree expr_of) cap [] ks))
  = map (f_degree expr_of) ks.
Proof. exact degree_cache_transparent. Qed.
Print Assumptions C14_degree_cache_transparent.

(* the answers for a model M after ANY prefix of other models' calls equal those from an empty cache *)
Theorem C14_no_interference_compile : forall expr_of cap ksN ksM,
  Forall through_cache ksN -> Forall through_cache ksM ->
  skipn (length ksN) (answers compile_key (option clo) compile_key_eqb (f_compile expr_of) cap [] (ksN ++ ksM))
  = answers compile_key (option clo) compile_key_eqb (f_compile expr_of) cap [] ksM.
Proof. exact compile_no_interference. Qed.
Print Assumptions C14_no_interference_compile.

Theorem C14_no_interference_gradient : forall ln2c ln10c expr_of cap ksN ksM,
  skipn (length ksN) (answers gradient_key expr gradient_key_eqb (f_grad ln2c ln10c expr_of) cap [] (ksN ++ ksM))
  = answers gradient_key expr gradient_key_eqb (f_grad ln2c ln10c expr_of) cap [] ksM.
Proof. exact gradient_no_interference. Qed.
Print Assumptions C14_no_interference_gradient.

Theorem C14_no_interference_degree : forall expr_of cap ksN ksM,
  skipn (length ksN) (answers degree_key (option nat) degree_key_eqb (f_degree expr_of) cap [] (ksN ++ ksM))
  = answers degree_key (option nat) degree_key_eqb (f_degree expr_of) cap [] ksM.
Proof. exact degree_no_interference. Qed.
Print Assumptions C14_no_interference_degree.

(* the key equalities used by Python are respected by what is cached *)
Theorem C14_compile_key_respects : forall expr_of k1 k2,
  goes_through_compile_cache k1 = true -> goes_through_compile_cache k2 = true ->
  compile_key_eqb k1 k2 = true -> f_compile expr_of k1 = f_compile expr_of k2.
Proof. exact compile_key_respects. Qed.
Print Assumptions C14_compile_key_respects.

(* ... and the hypothesis matters: a cache whose key equality is coarser than what the cached
   value depends on (a Parameter root keyed by name) does return another key's value *)
Theorem C14_key_respect_needed : exists cap ks,
  fst (fst (calls (nat * nat) nat bad_keqb bad_f cap [] ks)) <> map bad_f ks
  /\ snd (fst (calls (nat * nat) nat bad_keqb bad_f cap [] ks)) = [false; true].
Proof. exact respect_needed. Qed.
Print Assumptions C14_key_respect_needed.

(* a bare Parameter root is kept out of the compile cache *)
Example C14_parameter_root_bypasses : goes_through_compile_cache (RParam "p", ["x"%string]) = false.
Proof. reflexivity. Qed.
Print Assumptions C14_parameter_root_bypasses.
