(* C06 — a solution reported OPTIMAL is feasible.  Statements only. *)
From Coq Require Import String List QArith Qabs ZArith.
From Optyx Require Import Syntax Vars SolveWrap SolveWrapProofs.
From Optyx.Gen Require Import GenTables.
Import ListNotations.
Open Scope Q_scope.

(* for every method and every pair of oracle answers (first call, possible
   trust-constr retry): OPTIMAL implies the reported point passed the scan *)
Theorem C06_optimal_implies_feasible :
  forall method maximize V atol rtol bounds cvals r1 r2 out,
  out = post_minimize gen_accepted gen_status_chain gen_status_default method maximize V atol rtol bounds cvals r1 r2 ->
  o_status out = OPTIMAL ->
  exists r, (r = r1 \/ r = r2) /\
            o_values out = match r_x r with Some x => combine V x | None => [] end /\
            (forall x, r_x r = Some x -> scan_passed atol rtol x bounds cvals).
Proof. exact optimal_implies_scan_passed. Qed.
Print Assumptions C06_optimal_implies_feasible.

(* what a passed scan means numerically *)
Theorem C06_constraint_within_tolerance : forall atol rtol t v, con_violated atol rtol (t, v) = false ->
  match t with
  | Ineq => - scaled_tol atol rtol v <= v
  | EqC => Qabs v <= scaled_tol atol rtol v
  end.
Proof. exact con_ok_meaning. Qed.
Print Assumptions C06_constraint_within_tolerance.

Theorem C06_bound_within_tolerance : forall atol rtol x lb ub, bound_violated atol rtol (x, (lb, ub)) = false ->
  (forall l, lb = Some l -> l - x <= atol + rtol * Qmax 1 (Qabs l)) /\
  (forall u, ub = Some u -> x - u <= atol + rtol * Qmax 1 (Qabs u)).
Proof. exact bound_ok_meaning. Qed.
Print Assumptions C06_bound_within_tolerance.

(* the generated status chain itself: OPTIMAL only for an accepted, unviolated exit *)
Theorem C06_chain : forall r viol,
  decide gen_status_chain gen_status_default r viol = OPTIMAL ->
  cond_holds r false gen_accepted = true /\ viol = false.
Proof. exact chain_optimal. Qed.
Print Assumptions C06_chain.

Theorem C06_linprog_optimal_iff_success : forall maximize c0 names r,
  o_status (post_linprog gen_lp_chain gen_lp_default maximize c0 names r) = OPTIMAL <-> r_success r = true.
Proof. exact lp_optimal_iff_success. Qed.
Print Assumptions C06_linprog_optimal_iff_success.

Theorem C06_retry_at_most_once : forall method maximize V atol rtol bounds cvals r1 r2,
  (o_calls (post_minimize gen_accepted gen_status_chain gen_status_default method maximize V atol rtol bounds cvals r1 r2) <= 2)%nat.
Proof. exact at_most_two_calls. Qed.
Print Assumptions C06_retry_at_most_once.

Theorem C06_routing_total : forall is_lp auto_nlp m,
  (exists lm, route_of is_lp auto_nlp m = RouteLP lm) \/ (exists sm, route_of is_lp auto_nlp m = RouteScipy sm).
Proof. exact routing_total. Qed.
Print Assumptions C06_routing_total.

(* non-vacuity: an answer for which the model does report OPTIMAL, and one (the
   SLSQP "positive directional derivative" exit at a violating point) for which it does not *)
Example C06_example :
  let ok := {| r_success := true; r_kws := []; r_status := 0; r_x := Some [1#2; 1#2]; r_fun := Some (1#2) |} in
  let pdd := {| r_success := false; r_kws := ["positive directional derivative"%string]; r_status := 0; r_x := Some [0; 0]; r_fun := Some 0 |} in
  let cv := fun x : list Q => match x with [a; b] => [(Ineq, a + b - 1)] | _ => [] end in
  o_status (post_minimize gen_accepted gen_status_chain gen_status_default "trust-constr" false ["x"; "y"]%string
              gen_atol_default gen_rtol [(None, None); (None, None)] cv ok ok) = OPTIMAL /\
  o_status (post_minimize gen_accepted gen_status_chain gen_status_default "trust-constr" false ["x"; "y"]%string
              gen_atol_default gen_rtol [(None, None); (None, None)] cv pdd ok) = INFEASIBLE.
Proof. vm_compute. split; reflexivity. Qed.
Print Assumptions C06_example.
