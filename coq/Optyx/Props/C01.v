(* C01 — compiled callables compute the same function as the expression tree.
   Only statements; proofs are `exact <lemma>` from CompileProofs.v. *)
From Coq Require Import Reals String List.
From Optyx Require Import Syntax Occ SemR Machine Compile MachineProofs CompileProofs.
From Optyx.Gen Require Import GenTables.
Import ListNotations.

(* the closure built for ANY duplicate-free variable list denotes the formula, at
   every point and for every parameter valuation read at call time *)
Theorem C01_compile_correct : forall V e c x penv,
  wf e = true -> NoDup V -> List.length x = List.length V ->
  build V e = Some c -> Compile.run x penv c = evalR (env_of V x) penv e.
Proof. exact build_correct. Qed.
Print Assumptions C01_compile_correct.

(* every expression kind can be compiled; failure happens exactly when a variable is missing *)
Theorem C01_total : forall V e, wf e = true -> incl (vars e) V -> exists c, build V e = Some c.
Proof. exact build_total. Qed.
Print Assumptions C01_total.

Theorem C01_fails_iff_missing_variable : forall V e,
  wf e = true -> ((exists c, build V e = Some c) <-> incl (vars e) V).
Proof. exact build_some_iff. Qed.
Print Assumptions C01_fails_iff_missing_variable.

(* the deep-tree (explicit-stack) builder returns the same closure as the recursive
   one, for every switch threshold and in particular the generated one *)
Theorem C01_iter_eq_rec : forall V e, build_iter V e = Some (build V e).
Proof. exact build_iter_eq. Qed.
Print Assumptions C01_iter_eq_rec.

Theorem C01_threshold_free : forall V th e, compile V th e = build V e.
Proof. exact compile_threshold_free. Qed.
Print Assumptions C01_threshold_free.

Theorem C01_generated_threshold : forall V e, compile V th_compiler e = build V e.
Proof. intros; apply compile_threshold_free. Qed.
Print Assumptions C01_generated_threshold.

(* any two orderings / supersets give the same number *)
Theorem C01_any_order : forall V1 V2 x1 x2 e c1 c2 penv,
  wf e = true -> NoDup V1 -> NoDup V2 ->
  List.length x1 = List.length V1 -> List.length x2 = List.length V2 ->
  (forall v, In v (vars e) -> env_of V1 x1 v = env_of V2 x2 v) ->
  build V1 e = Some c1 -> build V2 e = Some c2 ->
  Compile.run x1 penv c1 = Compile.run x2 penv c2.
Proof. exact compile_any_order. Qed.
Print Assumptions C01_any_order.

(* one closure serves every later parameter value *)
Theorem C01_params_at_call_time : forall V e c x,
  wf e = true -> NoDup V -> List.length x = List.length V -> build V e = Some c ->
  forall penv, Compile.run x penv c = evalR (env_of V x) penv e.
Proof. exact one_closure_all_params. Qed.
Print Assumptions C01_params_at_call_time.

Theorem C01_end_to_end : forall V th e x penv,
  wf e = true -> NoDup V -> List.length x = List.length V -> incl (vars e) V ->
  exists c, compile V th e = Some c /\ Compile.run x penv c = evalR (env_of V x) penv e.
Proof. exact compile_correct. Qed.
Print Assumptions C01_end_to_end.

(* non-vacuity: a permuted superset, a vector reduction and a parameter *)
Example C01_example : exists c, build ex_V ex_e = Some c.
Proof. exact ex_builds. Qed.
Print Assumptions C01_example.
