(* C11 - vector and matrix modelling operations denote their NumPy counterparts.
   Only statements: every proof is `exact <lemma>` from VecMatProofs.v.  The reference
   semantics (np_* on list R / list (list R)) is NumpySpec.v; ev / evm evaluate every
   element tree of a vector / matrix object with SemR.evalR.  The statements below were
   printed by Coq from the proved lemmas (tools: Check), so they are the proved ones. *)
From Coq Require Import Reals QArith Qreals String List Arith Bool ZArith Lia Lra Sorted.
From Optyx Require Import Syntax SemR VecMat NumpySpec VecMatProofs.
Import ListNotations.
Close Scope Q_scope.
Open Scope R_scope.

Theorem C11_zidx_spec : forall (n : nat) (i : Z) (k : nat), zidx n i = Some k <-> (0 <= i < Z.of_nat n)%Z /\ k = Z.to_nat i \/ (- Z.of_nat n <= i < 0)%Z /\ k = Z.to_nat (Z.of_nat n + i).
Proof. exact zidx_spec. Qed.
Print Assumptions C11_zidx_spec.

Theorem C11_v_getitem_correct : forall (rho penv : env) (v : vobj) (i : Z) (e : expr), v_getitem v i = RExpr e -> exists k : nat, zidx (vsize v) i = Some k /\ (k < vsize v)%nat /\ e = nth k (vel v) c0e /\ evalR rho penv e = nth k (ev rho penv v) 0.
Proof. exact v_getitem_correct. Qed.
Print Assumptions C11_v_getitem_correct.

Theorem C11_v_slice_correct : forall (rho penv : env) (v : vobj) (a b c : option Z) (w : vobj), v_slice v a b c = RVec w -> exists idx : list nat, slice_indices (vsize v) a b c = Some idx /\ idx <> [] /\ vel w = select c0e (vel v) idx /\ vk w = KVar 0 /\ ev rho penv w = np_select (ev rho penv v) idx /\ Some (ev rho penv w) = np_slice (ev rho penv v) a b c.
Proof. exact v_slice_correct. Qed.
Print Assumptions C11_v_slice_correct.

Theorem C11_m_getitem_correct : forall (rho penv : env) (m : mobj) (i j : Z) (e : expr), m_getitem m i j = RExpr e -> exists a b : nat, zidx (nrows m) i = Some a /\ zidx (ncols m) j = Some b /\ (a < nrows m)%nat /\ (b < ncols m)%nat /\ e = nth b (nth a (mrows m) []) c0e /\ evalR rho penv e = np_index2 (evm rho penv m) a b.
Proof. exact m_getitem_correct. Qed.
Print Assumptions C11_m_getitem_correct.

Theorem C11_m_row_correct : forall (rho penv : env) (m : mobj) (i : Z) (a b c : option Z) (w : vobj), m_row m i a b c = RVec w -> exists (r : nat) (idx : list nat), zidx (nrows m) i = Some r /\ slice_indices (ncols m) a b c = Some idx /\ idx <> [] /\ vel w = select c0e (nth r (mrows m) []) idx /\ ev rho penv w = np_select (np_row (evm rho penv m) r) idx.
Proof. exact m_row_correct. Qed.
Print Assumptions C11_m_row_correct.

Theorem C11_m_col_correct : forall (rho penv : env) (m : mobj) (a b c : option Z) (j : Z) (w : vobj), m_col m a b c j = RVec w -> exists (k : nat) (idx : list nat), zidx (ncols m) j = Some k /\ slice_indices (nrows m) a b c = Some idx /\ idx <> [] /\ vel w = map (fun r : list expr => nth k r c0e) (select [] (mrows m) idx) /\ ev rho penv w = np_col (np_select_rows (evm rho penv m) idx) k.
Proof. exact m_col_correct. Qed.
Print Assumptions C11_m_col_correct.

Theorem C11_m_sub_correct : forall (rho penv : env) (m : mobj) (s1 e1 t1 s2 e2 t2 : option Z) (w : mobj), m_sub m s1 e1 t1 s2 e2 t2 = RMat w -> exists ri ci : list nat, slice_indices (nrows m) s1 e1 t1 = Some ri /\ slice_indices (ncols m) s2 e2 t2 = Some ci /\ ri <> [] /\ ci <> [] /\ mrows w = map (fun r : list expr => select c0e r ci) (select [] (mrows m) ri) /\ evm rho penv w = np_submatrix (evm rho penv m) ri ci.
Proof. exact m_sub_correct. Qed.
Print Assumptions C11_m_sub_correct.

Theorem C11_m_T_correct : forall (rho penv : env) (m w : mobj), rectangular (mrows m) (ncols m) -> m_T m = RMat w -> evm rho penv w = np_transpose (evm rho penv m) /\ mrows w = map (fun j : nat => map (fun r : list expr => nth j r c0e) (mrows m)) (seq 0 (ncols m)) /\ misvar w = misvar m /\ nrows w = ncols m.
Proof. exact m_T_correct. Qed.
Print Assumptions C11_m_T_correct.

Theorem C11_np_transpose_entry : forall (A : list (list R)) (i j : nat), rectangular A (np_ncols A) -> (i < Datatypes.length A)%nat -> (j < np_ncols A)%nat -> np_index2 (np_transpose A) j i = np_index2 A i j.
Proof. exact np_transpose_entry. Qed.
Print Assumptions C11_np_transpose_entry.

Theorem C11_m_diagonal_correct : forall (rho penv : env) (m : mobj) (w : vobj), m_diagonal m = RVec w -> ev rho penv w = np_diag (evm rho penv m) /\ nrows m = ncols m /\ vel w = map (fun i : nat => nth i (nth i (mrows m) []) c0e) (seq 0 (nrows m)).
Proof. exact m_diagonal_correct. Qed.
Print Assumptions C11_m_diagonal_correct.

Theorem C11_m_trace_correct : forall (rho penv : env) (m : mobj) (e : expr), m_trace m = RExpr e -> evalR rho penv e = np_trace (evm rho penv m) /\ nrows m = ncols m /\ nrows m <> 0%nat.
Proof. exact m_trace_correct. Qed.
Print Assumptions C11_m_trace_correct.

Theorem C11_v_binop_scalar : forall (rho penv : env) (o : bop) (l : vobj) (q : Q) (w : vobj), o <> Pow -> v_binop o l (AScalar q) = RVec w -> ev rho penv w = np_ew_scalar_r o (ev rho penv l) (Q2R q) /\ vsize w = vsize l.
Proof. exact v_binop_scalar. Qed.
Print Assumptions C11_v_binop_scalar.

Theorem C11_v_binop_pow_scalar : forall (rho penv : env) (l : vobj) (q : Q) (w : vobj), v_binop Pow l (AScalar q) = RVec w -> ev rho penv w = np_pow_scalar (ev rho penv l) q.
Proof. exact v_binop_pow_scalar. Qed.
Print Assumptions C11_v_binop_pow_scalar.

Theorem C11_v_binop_vec : forall (rho penv : env) (o : bop) (l r w : vobj), pow_ok o (vel r) -> v_binop o l (AVec r) = RVec w -> ev rho penv w = np_ew o (ev rho penv l) (ev rho penv r) /\ vsize r = vsize l /\ vsize w = vsize l.
Proof. exact v_binop_vec. Qed.
Print Assumptions C11_v_binop_vec.

Theorem C11_v_binop_arr1 : forall (rho penv : env) (o : bop) (l : vobj) (qs : list Q) (w : vobj), o <> Pow -> v_binop o l (AArr1 qs) = RVec w -> ev rho penv w = np_ew o (ev rho penv l) (map Q2R qs) /\ Datatypes.length qs = vsize l /\ vsize w = vsize l.
Proof. exact v_binop_arr1. Qed.
Print Assumptions C11_v_binop_arr1.

Theorem C11_v_binop_pow_arr1 : forall (rho penv : env) (l : vobj) (qs : list Q) (w : vobj), v_binop Pow l (AArr1 qs) = RVec w -> ev rho penv w = np_pow_consts (ev rho penv l) qs /\ Datatypes.length qs = vsize l.
Proof. exact v_binop_pow_arr1. Qed.
Print Assumptions C11_v_binop_pow_arr1.

Theorem C11_v_rbinop_scalar : forall (rho penv : env) (o : bop) (self : vobj) (q : Q) (w : vobj), pow_ok o (vel self) -> v_rbinop o self (AScalar q) = RVec w -> ev rho penv w = np_ew_scalar_l o (Q2R q) (ev rho penv self) /\ vsize w = vsize self.
Proof. exact v_rbinop_scalar. Qed.
Print Assumptions C11_v_rbinop_scalar.

Theorem C11_v_rbinop_arr1 : forall (rho penv : env) (o : bop) (self : vobj) (qs : list Q) (w : vobj), pow_ok o (vel self) -> v_rbinop o self (AArr1 qs) = RVec w -> ev rho penv w = np_ew o (map Q2R qs) (ev rho penv self) /\ Datatypes.length qs = vsize self /\ vsize w = vsize self.
Proof. exact v_rbinop_arr1. Qed.
Print Assumptions C11_v_rbinop_arr1.

Theorem C11_v_neg_correct : forall (rho penv : env) (v w : vobj), v_neg v = RVec w -> ev rho penv w = np_neg (ev rho penv v) /\ vsize w = vsize v.
Proof. exact v_neg_correct. Qed.
Print Assumptions C11_v_neg_correct.

Theorem C11_m_binop_scalar : forall (rho penv : env) (o : bop) (l : mobj) (q : Q) (w : mobj), o <> Pow -> m_binop o l (AScalar q) = RMat w -> evm rho penv w = np_mew_scalar_r o (evm rho penv l) (Q2R q) /\ shape (mrows w) = shape (mrows l).
Proof. exact m_binop_scalar. Qed.
Print Assumptions C11_m_binop_scalar.

Theorem C11_m_binop_pow_scalar : forall (rho penv : env) (l : mobj) (q : Q) (w : mobj), m_binop Pow l (AScalar q) = RMat w -> evm rho penv w = np_mpow_scalar (evm rho penv l) q.
Proof. exact m_binop_pow_scalar. Qed.
Print Assumptions C11_m_binop_pow_scalar.

Theorem C11_m_binop_mat : forall (rho penv : env) (o : bop) (l r w : mobj), pow_ok o (mflat r) -> m_binop o l (AMat r) = RMat w -> evm rho penv w = np_mew o (evm rho penv l) (evm rho penv r) /\ shape (mrows r) = shape (mrows l) /\ shape (mrows w) = shape (mrows l).
Proof. exact m_binop_mat. Qed.
Print Assumptions C11_m_binop_mat.

Theorem C11_m_binop_arr2 : forall (rho penv : env) (o : bop) (l : mobj) (q : list (list Q)) (w : mobj), o <> Pow -> m_binop o l (AArr2 q) = RMat w -> evm rho penv w = np_mew o (evm rho penv l) (map (map Q2R) q) /\ shape q = shape (mrows l) /\ shape (mrows w) = shape (mrows l).
Proof. exact m_binop_arr2. Qed.
Print Assumptions C11_m_binop_arr2.

Theorem C11_m_binop_pow_arr2 : forall (rho penv : env) (l : mobj) (q : list (list Q)) (w : mobj), m_binop Pow l (AArr2 q) = RMat w -> evm rho penv w = np_mpow_consts (evm rho penv l) q /\ shape q = shape (mrows l).
Proof. exact m_binop_pow_arr2. Qed.
Print Assumptions C11_m_binop_pow_arr2.

Theorem C11_m_rbinop_scalar : forall (rho penv : env) (o : bop) (self : mobj) (q : Q) (w : mobj), pow_ok o (mflat self) -> m_rbinop o self (AScalar q) = RMat w -> evm rho penv w = np_mew_scalar_l o (Q2R q) (evm rho penv self) /\ shape (mrows w) = shape (mrows self).
Proof. exact m_rbinop_scalar. Qed.
Print Assumptions C11_m_rbinop_scalar.

Theorem C11_m_rbinop_arr2 : forall (rho penv : env) (o : bop) (self : mobj) (q : list (list Q)) (w : mobj), pow_ok o (mflat self) -> m_rbinop o self (AArr2 q) = RMat w -> evm rho penv w = np_mew o (map (map Q2R) q) (evm rho penv self) /\ shape q = shape (mrows self) /\ shape (mrows w) = shape (mrows self).
Proof. exact m_rbinop_arr2. Qed.
Print Assumptions C11_m_rbinop_arr2.

Theorem C11_m_neg_correct : forall (rho penv : env) (m w : mobj), m_neg m = RMat w -> evm rho penv w = np_mneg (evm rho penv m) /\ shape (mrows w) = shape (mrows m).
Proof. exact m_neg_correct. Qed.
Print Assumptions C11_m_neg_correct.

Theorem C11_v_sum_correct : forall (rho penv : env) (v : vobj) (e : expr), kind_wf (vk v) (vel v) = true -> v_sum v = RExpr e -> evalR rho penv e = np_sum (ev rho penv v).
Proof. exact v_sum_correct. Qed.
Print Assumptions C11_v_sum_correct.

Theorem C11_v_dot_correct : forall (rho penv : env) (l r : vobj) (e : expr), v_dot l r = RExpr e -> evalR rho penv e = np_dot (ev rho penv l) (ev rho penv r) /\ vsize l = vsize r.
Proof. exact v_dot_correct. Qed.
Print Assumptions C11_v_dot_correct.

Theorem C11_v_matmul_vec : forall (rho penv : env) (x w : vobj) (e : expr), v_matmul x (AVec w) = RExpr e -> evalR rho penv e = np_dot (ev rho penv x) (ev rho penv w) /\ vsize x = vsize w.
Proof. exact v_matmul_vec. Qed.
Print Assumptions C11_v_matmul_vec.

Theorem C11_v_matmul_arr1 : forall (rho penv : env) (x : vobj) (qs : list Q) (e : expr), v_matmul x (AArr1 qs) = RExpr e -> evalR rho penv e = np_dot (map Q2R qs) (ev rho penv x) /\ Datatypes.length qs = vsize x.
Proof. exact v_matmul_arr1. Qed.
Print Assumptions C11_v_matmul_arr1.

Theorem C11_v_rmatmul_arr1 : forall (rho penv : env) (x : vobj) (qs : list Q) (e : expr), v_rmatmul x (AArr1 qs) = RExpr e -> evalR rho penv e = np_dot (map Q2R qs) (ev rho penv x) /\ Datatypes.length qs = vsize x.
Proof. exact v_rmatmul_arr1. Qed.
Print Assumptions C11_v_rmatmul_arr1.

Theorem C11_matvec_correct : forall (rho penv : env) (m : list (list Q)) (x w : vobj), matvec m x = RVec w -> ev rho penv w = np_matvec (map (map Q2R) m) (ev rho penv x) /\ rectangular m (vsize x) /\ m <> [] /\ vsize w = Datatypes.length m.
Proof. exact matvec_correct. Qed.
Print Assumptions C11_matvec_correct.

Theorem C11_v_rmatmul_arr2 : forall (rho penv : env) (x : vobj) (m : list (list Q)) (w : vobj), v_rmatmul x (AArr2 m) = RVec w -> ev rho penv w = np_matvec (map (map Q2R) m) (ev rho penv x) /\ rectangular m (vsize x) /\ m <> [] /\ vsize w = Datatypes.length m.
Proof. exact v_rmatmul_arr2. Qed.
Print Assumptions C11_v_rmatmul_arr2.

Theorem C11_matvec_total : forall (m : list (list Q)) (x : vobj), (exists w : vobj, matvec m x = RVec w) \/ matvec m x = RErr EDim.
Proof. exact matvec_total. Qed.
Print Assumptions C11_matvec_total.

Theorem C11_v_dot_matvec_correct : forall (rho penv : env) (x : vobj) (m : list (list Q)) (y : vobj) (e : expr), kind_wf (vk x) (vel x) = true -> v_dot_matvec x m y = RExpr e -> evalR rho penv e = np_dot (ev rho penv x) (np_matvec (map (map Q2R) m) (ev rho penv y)) /\ Datatypes.length m = vsize x /\ rectangular m (vsize y).
Proof. exact v_dot_matvec_correct. Qed.
Print Assumptions C11_v_dot_matvec_correct.

Theorem C11_v_dot_matvec_rewrites : forall (x : vobj) (m : list (list Q)) (i : N), vk x = KVar i -> forallb is_var (vel x) = true -> Datatypes.length m = vsize x -> rectangular m (vsize x) -> v_dot_matvec x m x = RExpr (QForm (vk x) (vel x) m).
Proof. exact v_dot_matvec_rewrites. Qed.
Print Assumptions C11_v_dot_matvec_rewrites.

Theorem C11_v_norm2_correct : forall (rho penv : env) (x : vobj) (e : expr), v_norm x 2 = RExpr e -> evalR rho penv e = np_norm2 (ev rho penv x).
Proof. exact v_norm2_correct. Qed.
Print Assumptions C11_v_norm2_correct.

Theorem C11_v_norm1_correct : forall (rho penv : env) (x : vobj) (e : expr), v_norm x 1 = RExpr e -> evalR rho penv e = np_norm1 (ev rho penv x).
Proof. exact v_norm1_correct. Qed.
Print Assumptions C11_v_norm1_correct.

Theorem C11_v_norm_other : forall (x : vobj) (ord : Z), ord <> 2%Z -> ord <> 1%Z -> v_norm x ord = RErr EInvalid.
Proof. exact v_norm_other. Qed.
Print Assumptions C11_v_norm_other.

Theorem C11_quad_form_correct : forall (rho penv : env) (x : vobj) (m : list (list Q)) (e : expr), quad_form x m = RExpr e -> evalR rho penv e = np_quad (ev rho penv x) (map (map Q2R) m) /\ Datatypes.length m = vsize x /\ rectangular m (vsize x).
Proof. exact quad_form_correct. Qed.
Print Assumptions C11_quad_form_correct.

Theorem C11_m_sum_correct : forall (rho penv : env) (m : mobj) (e : expr), m_sum m = RExpr e -> evalR rho penv e = np_msum (evm rho penv m).
Proof. exact m_sum_correct. Qed.
Print Assumptions C11_m_sum_correct.

Theorem C11_m_frob_correct : forall (rho penv : env) (m : mobj) (e : expr), m_frob m = RExpr e -> evalR rho penv e = np_frob (evm rho penv m).
Proof. exact m_frob_correct. Qed.
Print Assumptions C11_m_frob_correct.

Theorem C11_m_matvec_correct : forall (rho penv : env) (m : mobj) (x w : vobj), m_matvec m x = RVec w -> ev rho penv w = np_matvec (evm rho penv m) (ev rho penv x) /\ ncols m = vsize x /\ vsize w = nrows m.
Proof. exact m_matvec_correct. Qed.
Print Assumptions C11_m_matvec_correct.

Theorem C11_m_matvec_rows_full : forall (m : mobj) (x w : vobj), rectangular (mrows m) (ncols m) -> m_matvec m x = RVec w -> rectangular (mrows m) (vsize x).
Proof. exact m_matvec_rows_full. Qed.
Print Assumptions C11_m_matvec_rows_full.

Theorem C11_v_getitem_out_of_range : forall (v : vobj) (i : Z), (i < - Z.of_nat (vsize v))%Z \/ (Z.of_nat (vsize v) <= i)%Z -> v_getitem v i = RErr EIndex.
Proof. exact v_getitem_out_of_range. Qed.
Print Assumptions C11_v_getitem_out_of_range.

Theorem C11_m_getitem_out_of_range : forall (m : mobj) (i j : Z), ((i < - Z.of_nat (nrows m))%Z \/ (Z.of_nat (nrows m) <= i)%Z) \/ (j < - Z.of_nat (ncols m))%Z \/ (Z.of_nat (ncols m) <= j)%Z -> m_getitem m i j = RErr EIndex.
Proof. exact m_getitem_out_of_range. Qed.
Print Assumptions C11_m_getitem_out_of_range.

Theorem C11_m_row_out_of_range : forall (m : mobj) (i : Z) (a b c : option Z), (i < - Z.of_nat (nrows m))%Z \/ (Z.of_nat (nrows m) <= i)%Z -> m_row m i a b c = RErr EIndex.
Proof. exact m_row_out_of_range. Qed.
Print Assumptions C11_m_row_out_of_range.

Theorem C11_m_col_out_of_range : forall (m : mobj) (a b c : option Z) (j : Z), (j < - Z.of_nat (ncols m))%Z \/ (Z.of_nat (ncols m) <= j)%Z -> m_col m a b c j = RErr EIndex.
Proof. exact m_col_out_of_range. Qed.
Print Assumptions C11_m_col_out_of_range.

Theorem C11_v_slice_empty : forall (v : vobj) (a b c : option Z), slice_indices (vsize v) a b c = Some [] -> v_slice v a b c = RErr EIndex.
Proof. exact v_slice_empty. Qed.
Print Assumptions C11_v_slice_empty.

Theorem C11_m_row_empty : forall (m : mobj) (i : Z) (a b c : option Z), slice_indices (ncols m) a b c = Some [] -> m_row m i a b c = RErr EIndex.
Proof. exact m_row_empty. Qed.
Print Assumptions C11_m_row_empty.

Theorem C11_m_col_empty : forall (m : mobj) (a b c : option Z) (j : Z), slice_indices (nrows m) a b c = Some [] -> m_col m a b c j = RErr EIndex.
Proof. exact m_col_empty. Qed.
Print Assumptions C11_m_col_empty.

Theorem C11_m_sub_empty : forall (m : mobj) (s1 e1 t1 s2 e2 t2 : option Z) (ri ci : list nat), slice_indices (nrows m) s1 e1 t1 = Some ri -> slice_indices (ncols m) s2 e2 t2 = Some ci -> ri = [] \/ ci = [] -> m_sub m s1 e1 t1 s2 e2 t2 = RErr EIndex.
Proof. exact m_sub_empty. Qed.
Print Assumptions C11_m_sub_empty.

Theorem C11_v_slice_step0 : forall (v : vobj) (a b : option Z), v_slice v a b (Some 0%Z) = RErr EInvalid.
Proof. exact v_slice_step0. Qed.
Print Assumptions C11_v_slice_step0.

Theorem C11_m_sub_step0 : forall (m : mobj) (s1 e1 t1 s2 e2 t2 : option Z), t1 = Some 0%Z \/ t2 = Some 0%Z -> m_sub m s1 e1 t1 s2 e2 t2 = RErr EInvalid.
Proof. exact m_sub_step0. Qed.
Print Assumptions C11_m_sub_step0.

Theorem C11_v_binop_vec_mismatch : forall (o : bop) (l w : vobj), vsize w <> vsize l -> v_binop o l (AVec w) = RErr EDim.
Proof. exact v_binop_vec_mismatch. Qed.
Print Assumptions C11_v_binop_vec_mismatch.

Theorem C11_v_binop_arr1_mismatch : forall (o : bop) (l : vobj) (qs : list Q), Datatypes.length qs <> vsize l -> v_binop o l (AArr1 qs) = RErr EDim.
Proof. exact v_binop_arr1_mismatch. Qed.
Print Assumptions C11_v_binop_arr1_mismatch.

Theorem C11_v_binop_arr2 : forall (o : bop) (l : vobj) (m : list (list Q)), v_binop o l (AArr2 m) = RErr EWrongDim.
Proof. exact v_binop_arr2. Qed.
Print Assumptions C11_v_binop_arr2.

Theorem C11_v_binop_mat : forall (o : bop) (l : vobj) (m : mobj), v_binop o l (AMat m) = RErr EInvalid.
Proof. exact v_binop_mat. Qed.
Print Assumptions C11_v_binop_mat.

Theorem C11_v_binop_other : forall (o : bop) (l : vobj), v_binop o l AOther = RErr EInvalid.
Proof. exact v_binop_other. Qed.
Print Assumptions C11_v_binop_other.

Theorem C11_v_binop_size : forall (o : bop) (l : vobj) (r : arg) (w : vobj), v_binop o l r = RVec w -> vsize w = vsize l.
Proof. exact v_binop_size. Qed.
Print Assumptions C11_v_binop_size.

Theorem C11_v_binop_never_expr_or_mat : forall (o : bop) (l : vobj) (r : arg), (forall e : expr, v_binop o l r <> RExpr e) /\ (forall m : mobj, v_binop o l r <> RMat m).
Proof. exact v_binop_never_expr_or_mat. Qed.
Print Assumptions C11_v_binop_never_expr_or_mat.

Theorem C11_v_rbinop_arr1_mismatch : forall (o : bop) (self : vobj) (qs : list Q), Datatypes.length qs <> vsize self -> v_rbinop o self (AArr1 qs) = RErr EDim.
Proof. exact v_rbinop_arr1_mismatch. Qed.
Print Assumptions C11_v_rbinop_arr1_mismatch.

Theorem C11_v_rbinop_arr2 : forall (o : bop) (self : vobj) (m : list (list Q)), v_rbinop o self (AArr2 m) = RErr EWrongDim.
Proof. exact v_rbinop_arr2. Qed.
Print Assumptions C11_v_rbinop_arr2.

Theorem C11_v_rbinop_size : forall (o : bop) (self : vobj) (other : arg) (w : vobj), v_rbinop o self other = RVec w -> vsize w = vsize self.
Proof. exact v_rbinop_size. Qed.
Print Assumptions C11_v_rbinop_size.

Theorem C11_v_dot_mismatch : forall l r : vobj, vsize l <> vsize r -> v_dot l r = RErr EDim.
Proof. exact v_dot_mismatch. Qed.
Print Assumptions C11_v_dot_mismatch.

Theorem C11_v_matmul_vec_mismatch : forall x w : vobj, vsize x <> vsize w -> v_matmul x (AVec w) = RErr EDim.
Proof. exact v_matmul_vec_mismatch. Qed.
Print Assumptions C11_v_matmul_vec_mismatch.

Theorem C11_v_matmul_arr1_mismatch : forall (x : vobj) (qs : list Q), Datatypes.length qs <> vsize x -> v_matmul x (AArr1 qs) = RErr EDim.
Proof. exact v_matmul_arr1_mismatch. Qed.
Print Assumptions C11_v_matmul_arr1_mismatch.

Theorem C11_v_matmul_arr2 : forall (x : vobj) (m : list (list Q)), v_matmul x (AArr2 m) = RErr EWrongDim.
Proof. exact v_matmul_arr2. Qed.
Print Assumptions C11_v_matmul_arr2.

Theorem C11_v_rmatmul_arr1_mismatch : forall (x : vobj) (qs : list Q), Datatypes.length qs <> vsize x -> v_rmatmul x (AArr1 qs) = RErr EDim.
Proof. exact v_rmatmul_arr1_mismatch. Qed.
Print Assumptions C11_v_rmatmul_arr1_mismatch.

Theorem C11_matvec_mismatch : forall (m : list (list Q)) (x : vobj) (row : list Q), In row m -> Datatypes.length row <> vsize x -> matvec m x = RErr EDim.
Proof. exact matvec_mismatch. Qed.
Print Assumptions C11_matvec_mismatch.

Theorem C11_matvec_empty : forall x : vobj, matvec [] x = RErr EDim.
Proof. exact matvec_empty. Qed.
Print Assumptions C11_matvec_empty.

Theorem C11_quad_form_not_square : forall (x : vobj) (m : list (list Q)) (row : list Q), In row m -> Datatypes.length row <> Datatypes.length m -> quad_form x m = RErr ESquare.
Proof. exact quad_form_not_square. Qed.
Print Assumptions C11_quad_form_not_square.

Theorem C11_quad_form_mismatch : forall (x : vobj) (m : list (list Q)), rectangular m (Datatypes.length m) -> Datatypes.length m <> vsize x -> quad_form x m = RErr EDim.
Proof. exact quad_form_mismatch. Qed.
Print Assumptions C11_quad_form_mismatch.

Theorem C11_v_dot_matvec_mismatch : forall (x : vobj) (m : list (list Q)) (y : vobj), Datatypes.length m <> vsize x \/ (exists row : list Q, In row m /\ Datatypes.length row <> vsize y) -> kind_wf (vk x) (vel x) = true -> v_dot_matvec x m y = RErr EDim.
Proof. exact v_dot_matvec_mismatch. Qed.
Print Assumptions C11_v_dot_matvec_mismatch.

Theorem C11_m_diagonal_not_square : forall m : mobj, nrows m <> ncols m -> m_diagonal m = RErr ESquare.
Proof. exact m_diagonal_not_square. Qed.
Print Assumptions C11_m_diagonal_not_square.

Theorem C11_m_trace_not_square : forall m : mobj, nrows m <> ncols m -> m_trace m = RErr ESquare.
Proof. exact m_trace_not_square. Qed.
Print Assumptions C11_m_trace_not_square.

Theorem C11_m_binop_mat_mismatch : forall (o : bop) (l w : mobj), shape (mrows l) <> shape (mrows w) -> m_binop o l (AMat w) = RErr EDim.
Proof. exact m_binop_mat_mismatch. Qed.
Print Assumptions C11_m_binop_mat_mismatch.

Theorem C11_m_binop_arr2_mismatch : forall (o : bop) (l : mobj) (q : list (list Q)), shape (mrows l) <> shape q -> m_binop o l (AArr2 q) = RErr EDim.
Proof. exact m_binop_arr2_mismatch. Qed.
Print Assumptions C11_m_binop_arr2_mismatch.

Theorem C11_m_rbinop_arr2_mismatch : forall (o : bop) (self : mobj) (q : list (list Q)), shape (mrows self) <> shape q -> m_rbinop o self (AArr2 q) = RErr EDim.
Proof. exact m_rbinop_arr2_mismatch. Qed.
Print Assumptions C11_m_rbinop_arr2_mismatch.

Theorem C11_m_binop_arr1 : forall (o : bop) (l : mobj) (qs : list Q), m_binop o l (AArr1 qs) = RErr EDim.
Proof. exact m_binop_arr1. Qed.
Print Assumptions C11_m_binop_arr1.

Theorem C11_m_binop_vec : forall (o : bop) (l : mobj) (v : vobj), m_binop o l (AVec v) = RErr EInvalid.
Proof. exact m_binop_vec. Qed.
Print Assumptions C11_m_binop_vec.

Theorem C11_m_binop_shape : forall (o : bop) (l : mobj) (r : arg) (w : mobj), m_binop o l r = RMat w -> shape (mrows w) = shape (mrows l).
Proof. exact m_binop_shape. Qed.
Print Assumptions C11_m_binop_shape.

Theorem C11_m_matvec_mismatch : forall (m : mobj) (x : vobj), ncols m <> vsize x -> m_matvec m x = RErr EDim.
Proof. exact m_matvec_mismatch. Qed.
Print Assumptions C11_m_matvec_mismatch.

Theorem C11_shape_eqb_spec : forall a b : list (list expr), shape_eqb a b = true <-> shape a = shape b.
Proof. exact shape_eqb_spec. Qed.
Print Assumptions C11_shape_eqb_spec.

Theorem C11_qshape_ok_spec : forall (a : list (list expr)) (q : list (list Q)), qshape_ok a q = true <-> shape a = shape q.
Proof. exact qshape_ok_spec. Qed.
Print Assumptions C11_qshape_ok_spec.

Theorem C11_slice_indices_bound : forall (n : nat) (a b c : option Z) (idx : list nat), slice_indices n a b c = Some idx -> Forall (fun k : nat => (k < n)%nat) idx.
Proof. exact slice_indices_bound. Qed.
Print Assumptions C11_slice_indices_bound.

Theorem C11_slice_indices_increasing : forall (n : nat) (a b c : option Z) (idx : list nat), (0 < slice_step c)%Z -> slice_indices n a b c = Some idx -> StronglySorted lt idx.
Proof. exact slice_indices_increasing. Qed.
Print Assumptions C11_slice_indices_increasing.

Theorem C11_slice_indices_decreasing : forall (n : nat) (a b c : option Z) (idx : list nat), (slice_step c < 0)%Z -> slice_indices n a b c = Some idx -> StronglySorted gt idx.
Proof. exact slice_indices_decreasing. Qed.
Print Assumptions C11_slice_indices_decreasing.

Theorem C11_slice_indices_NoDup : forall (n : nat) (a b c : option Z) (idx : list nat), slice_indices n a b c = Some idx -> NoDup idx.
Proof. exact slice_indices_NoDup. Qed.
Print Assumptions C11_slice_indices_NoDup.

Theorem C11_slice_indices_step0 : forall (n : nat) (a b : option Z), slice_indices n a b (Some 0%Z) = None.
Proof. exact slice_indices_step0. Qed.
Print Assumptions C11_slice_indices_step0.

Theorem C11_slice_indices_defined : forall (n : nat) (a b c : option Z), slice_step c <> 0%Z -> exists idx : list nat, slice_indices n a b c = Some idx.
Proof. exact slice_indices_defined. Qed.
Print Assumptions C11_slice_indices_defined.

Theorem C11_slice_indices_up_spec : forall (n : nat) (a b c : option Z) (idx : list nat) (k : nat), (0 < slice_step c)%Z -> slice_indices n a b c = Some idx -> In k idx <-> (exists j : nat, (start_up n a + Z.of_nat j * slice_step c < stop_up n b)%Z /\ k = Z.to_nat (start_up n a + Z.of_nat j * slice_step c)).
Proof. exact slice_indices_up_spec. Qed.
Print Assumptions C11_slice_indices_up_spec.

Theorem C11_slice_indices_dn_spec : forall (n : nat) (a b c : option Z) (idx : list nat) (k : nat), (slice_step c < 0)%Z -> slice_indices n a b c = Some idx -> In k idx <-> (exists j : nat, (stop_dn n b < start_dn n a + Z.of_nat j * slice_step c)%Z /\ k = Z.to_nat (start_dn n a + Z.of_nat j * slice_step c)).
Proof. exact slice_indices_dn_spec. Qed.
Print Assumptions C11_slice_indices_dn_spec.

Theorem C11_slice_full : forall n : nat, slice_indices n None None None = Some (seq 0 n).
Proof. exact slice_full. Qed.
Print Assumptions C11_slice_full.

Theorem C11_slice_reverse : forall n : nat, slice_indices n None None (Some (-1)%Z) = Some (rev (seq 0 n)).
Proof. exact slice_reverse. Qed.
Print Assumptions C11_slice_reverse.

Theorem C11_np_slice_full : forall l : vec, np_slice l None None None = Some l.
Proof. exact np_slice_full. Qed.
Print Assumptions C11_np_slice_full.

Theorem C11_np_slice_reverse : forall l : vec, np_slice l None None (Some (-1)%Z) = Some (rev l).
Proof. exact np_slice_reverse. Qed.
Print Assumptions C11_np_slice_reverse.

Theorem C11_v_slice_wf : forall (v : vobj) (i : N) (a b c : option Z) (w : vobj), vk v = KVar i -> kind_wf (vk v) (vel v) = true -> v_slice v a b c = RVec w -> kind_wf (vk w) (vel w) = true.
Proof. exact v_slice_wf. Qed.
Print Assumptions C11_v_slice_wf.

Theorem C11_v_sum_slice : forall (rho penv : env) (v : vobj) (i : N) (a b c : option Z) (w : vobj) (e : expr), vk v = KVar i -> kind_wf (vk v) (vel v) = true -> v_slice v a b c = RVec w -> v_sum w = RExpr e -> exists idx : list nat, slice_indices (vsize v) a b c = Some idx /\ evalR rho penv e = np_sum (np_select (ev rho penv v) idx).
Proof. exact v_sum_slice. Qed.
Print Assumptions C11_v_sum_slice.

Theorem C11_sym_rows_symmetric : forall (names : nat -> nat -> string) (n i j : nat) (d : expr), (i < n)%nat -> (j < n)%nat -> nth j (nth i (sym_rows names n) []) d = nth i (nth j (sym_rows names n) []) d.
Proof. exact sym_rows_symmetric. Qed.
Print Assumptions C11_sym_rows_symmetric.

Theorem C11_sym_rows_shape : forall (names : nat -> nat -> string) (n : nat), shape (sym_rows names n) = repeat n n.
Proof. exact sym_rows_shape. Qed.
Print Assumptions C11_sym_rows_shape.

Example C11_m_matvec_example : exists w : vobj, m_matvec exM exX = RVec w /\ ev ex_rho (fun _ : string => 0) w = [14; 32].
Proof. exact m_matvec_example. Qed.
Print Assumptions C11_m_matvec_example.

Example C11_m_matvec_example_np : np_matvec (evm ex_rho (fun _ : string => 0) exM) (ev ex_rho (fun _ : string => 0) exX) = [14; 32].
Proof. exact m_matvec_example_np. Qed.
Print Assumptions C11_m_matvec_example_np.

Example C11_m_matvec_example_rejected : m_matvec exM {| vk := KVar 2; vel := [Var "x0"; Var "x1"] |} = RErr EDim.
Proof. exact m_matvec_example_rejected. Qed.
Print Assumptions C11_m_matvec_example_rejected.

Example C11_v_binop_example_rejected : v_binop Add exX (AVec {| vk := KVar 2; vel := [Var "y0"; Var "y1"] |}) = RErr EDim.
Proof. exact v_binop_example_rejected. Qed.
Print Assumptions C11_v_binop_example_rejected.

Example C11_v_slice_example : v_slice exX None None (Some (-1)%Z) = RVec {| vk := KVar 0; vel := [Var "x2"; Var "x1"; Var "x0"] |}.
Proof. exact v_slice_example. Qed.
Print Assumptions C11_v_slice_example.

Example C11_m_T_example : m_T exM = RMat {| misvar := true; mrows := [[Var "a00"; Var "a10"]; [Var "a01"; Var "a11"]; [Var "a02"; Var "a12"]] |}.
Proof. exact m_T_example. Qed.
Print Assumptions C11_m_T_example.

Example C11_v_sum_needs_wf : v_sum {| vk := KVar 0; vel := [Const 1] |} = RExpr (VSum 0 []) /\ evalR (fun _ : string => 0) (fun _ : string => 0) (VSum 0 []) = 0 /\ np_sum (ev (fun _ : string => 0) (fun _ : string => 0) {| vk := KVar 0; vel := [Const 1] |}) = 1.
Proof. exact v_sum_needs_wf. Qed.
Print Assumptions C11_v_sum_needs_wf.

Example C11_v_binop_pow_literal : v_binop Pow {| vk := KExpr; vel := [Var "x"] |} (AVec {| vk := KExpr; vel := [Const 2] |}) = RVec {| vk := KExpr; vel := [Bin Pow (Var "x") (Const 2)] |} /\ (forall rho penv : env, evalR rho penv (Bin Pow (Var "x") (Const 2)) = rho "x" * (rho "x" * 1)).
Proof. exact v_binop_pow_literal. Qed.
Print Assumptions C11_v_binop_pow_literal.

Example C11_m_trace_empty : m_trace {| misvar := true; mrows := [] |} = RErr ESquare.
Proof. exact m_trace_empty. Qed.
Print Assumptions C11_m_trace_empty.

Example C11_m_T_ragged : m_T {| misvar := false; mrows := [[Var "a"; Var "b"]; [Var "c"]] |} = RMat {| misvar := false; mrows := [[Var "a"; Var "c"]; [Var "b"; c0e]] |}.
Proof. exact m_T_ragged. Qed.
Print Assumptions C11_m_T_ragged.

