(* placeholder until VecMatProofs.v lands *)
From Optyx Require Import Syntax VecMat.
From Coq Require Import List ZArith.
Import ListNotations.
Example C11_slice_examples :
  slice_indices 5 (Some 1%Z) (Some 4%Z) None = Some [1; 2; 3] /\
  slice_indices 5 None None (Some (-1)%Z) = Some [4; 3; 2; 1; 0] /\
  slice_indices 5 None None (Some 0%Z) = None.
Proof. repeat split; vm_compute; reflexivity. Qed.
Print Assumptions C11_slice_examples.
