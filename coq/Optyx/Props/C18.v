(* C18 — integrality is never relaxed silently.  Statements only. *)
From Coq Require Import String List QArith.
From Optyx Require Import Syntax Vars SolveWrap SolveWrapProofs.
From Optyx.Gen Require Import GenTables.
Import ListNotations.
Open Scope Q_scope.

(* strict: whatever the method, the oracle is never reached *)
Theorem C18_strict_no_solver_call : forall has_obj is_lp auto_nlp st V method,
  non_continuous st V <> [] ->
  oracle_called (solve_front has_obj is_lp auto_nlp st V method true) = false.
Proof. exact strict_never_reaches_oracle. Qed.
Print Assumptions C18_strict_no_solver_call.

(* strict: IntegerVariableError naming exactly the non-continuous variables *)
Theorem C18_strict_error_names : forall is_lp auto_nlp st V method,
  non_continuous st V <> [] ->
  (forall lm, route_of is_lp auto_nlp method = RouteLP lm -> is_lp = true) ->
  solve_front true is_lp auto_nlp st V method true = SInteger (non_continuous st V).
Proof. exact strict_raises_integer_error. Qed.
Print Assumptions C18_strict_error_names.

Theorem C18_names_exact : forall st V v,
  In v (non_continuous st V) <-> In v V /\ vdom (st v) <> Continuous.
Proof. exact non_continuous_exact. Qed.
Print Assumptions C18_names_exact.

(* not strict: warning with exactly those names, then the relaxed problem's oracle call *)
Theorem C18_warn_and_relax : forall has_obj is_lp auto_nlp st V method r ws,
  non_continuous st V <> [] ->
  solve_front has_obj is_lp auto_nlp st V method false = SRan ws r ->
  ws = non_continuous st V /\
  solve_front has_obj is_lp auto_nlp (relax st) V method false = SRan [] r.
Proof. exact nonstrict_warns_and_relaxes. Qed.
Print Assumptions C18_warn_and_relax.

Theorem C18_binary_bounds : forall l u, lb (declare l u Binary) = Some 0 /\ ub (declare l u Binary) = Some 1.
Proof. exact binary_bounds. Qed.
Print Assumptions C18_binary_bounds.

(* generated from the source on this run: the gate precedes the solver call in both wrappers *)
Theorem C18_gate_precedes_oracle : gen_gate_before_oracle = (true, true).
Proof. exact gate_precedes_oracle. Qed.
Print Assumptions C18_gate_precedes_oracle.

Example C18_example :
  let st : store := fun v => if String.eqb v "n" then {| lb := None; ub := None; vdom := Integer |}
                             else {| lb := None; ub := None; vdom := Continuous |} in
  solve_front true false "SLSQP" st ["c"; "n"]%string "auto" true = SInteger ["n"%string] /\
  solve_front true false "SLSQP" st ["c"; "n"]%string "auto" false = SRan ["n"%string] (RouteScipy "SLSQP").
Proof. split; vm_compute; reflexivity. Qed.
Print Assumptions C18_example.
