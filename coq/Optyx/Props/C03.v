(* placeholder until JacobianProofs.v lands *)
From Optyx Require Import Syntax Machine Jacobian MachineProofs.
Theorem C03_iter_machine : forall A leaf fbin funa e, fold_iter A leaf fbin funa e = Some (fold_rec A leaf fbin funa e).
Proof. exact fold_iter_correct. Qed.
Print Assumptions C03_iter_machine.
