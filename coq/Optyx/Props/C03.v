(* C03 — solver-facing gradients and Jacobians are correct in the declared variable order.
   Statements only; proofs are `exact <lemma>`. *)
From Coquelicot Require Import Coquelicot.
From Coq Require Import Reals QArith String List.
From Optyx Require Import Syntax Occ SemR Autodiff AutodiffLemmas AutodiffProofs Compile ArrTerm Jacobian JacobianProofs.
From Optyx.Gen Require Import GenTables GenObligations.
Import ListNotations.
Close Scope Q_scope.

(* the entries all paths are compared with - values of the model gradient - are the true partial derivatives *)
Theorem C03_entries_are_derivatives : forall ln2c ln10c e v rho penv,
  wf e = true -> exact_ops e = true -> AutodiffProofs.dot_same_ok e = true -> regular rho penv e ->
  is_derive (fun t : R => evalR (upd rho v t) penv e) (rho v) (evalR rho penv (grad ln2c ln10c v e)).
Proof. exact grad_correct. Qed.
Print Assumptions C03_entries_are_derivatives.

(* the compiled Jacobian (constant / scaled / general path): entry (i,j) is the value of
   d e_i / d V_j, for any duplicate-free V containing the variables (permutation or superset) *)
Theorem C03_compile_jacobian : forall ln2c ln10c es V x penv pow_tbl un_tbl,
  Forall (fun e => wf e = true) es -> Forall (fun e => JacobianProofs.dot_same_ok e = true) es ->
  NoDup V -> List.length x = List.length V ->
  (forall e, In e es -> incl (vars e) V) ->
  (forall e v, In e es -> In v V -> wf (grad ln2c ln10c v e) = true) ->
  (forall e v, In e es -> In v V -> incl (vars (grad ln2c ln10c v e)) V) ->
  not_vector_path es = true ->
  exists M, run_jac x penv pow_tbl un_tbl (compile_jacobian ln2c ln10c es V) = Some M /\
    M = map (fun e => map (fun v => evalR (env_of V x) penv (grad ln2c ln10c v e)) V) es.
Proof. exact compile_jacobian_sound. Qed.
Print Assumptions C03_compile_jacobian.

(* the specialised shortcuts return exactly what the general path returns *)
Theorem C03_paths_agree : forall ln2c ln10c es V x penv pow_tbl un_tbl,
  Forall (fun e => wf e = true) es -> Forall (fun e => JacobianProofs.dot_same_ok e = true) es ->
  NoDup V -> List.length x = List.length V ->
  (forall e, In e es -> incl (vars e) V) ->
  (forall e v, In e es -> In v V -> wf (grad ln2c ln10c v e) = true) ->
  (forall e v, In e es -> In v V -> incl (vars (grad ln2c ln10c v e)) V) ->
  not_vector_path es = true ->
  (exists m, general_path V (compute_jacobian ln2c ln10c es V) = Some m /\
      run_jac x penv pow_tbl un_tbl (compile_jacobian ln2c ln10c es V) = run_jac x penv pow_tbl un_tbl (JGeneral m)) /\
  (exists m', general_path V (map (fun e => map (fun v => grad ln2c ln10c v e) V) es) = Some m' /\
      run_jac x penv pow_tbl un_tbl (compile_jacobian ln2c ln10c es V) = run_jac x penv pow_tbl un_tbl (JGeneral m')).
Proof. exact compile_paths_agree. Qed.
Print Assumptions C03_paths_agree.

(* per-node Jacobian rows (incl. products of overlapping slices of one vector) = general path, entry by entry *)
Theorem C03_row_shortcuts : forall ln2c ln10c V e row,
  wf e = true -> jac_row V e = Some row ->
  forall rho penv, map (evalR rho penv) row = map (fun v => evalR rho penv (grad ln2c ln10c v e)) V.
Proof. exact jac_row_sound_gen. Qed.
Print Assumptions C03_row_shortcuts.

Theorem C03_compile_gradient : forall ln2c ln10c e V x penv pow_tbl un_tbl,
  NoDup V -> List.length x = List.length V ->
  (forall v, In v V -> wf (grad ln2c ln10c v e) = true) ->
  (forall v, In v V -> incl (vars (grad ln2c ln10c v e)) V) ->
  not_vector_path [e] = true ->
  exists row, compile_gradient ln2c ln10c e V = JGeneral [row] /\
    run_jac x penv pow_tbl un_tbl (compile_gradient ln2c ln10c e V) =
      Some [map (fun v => evalR (env_of V x) penv (gradient ln2c ln10c v 400 e)) V] /\
    run_jac x penv pow_tbl un_tbl (compile_gradient ln2c ln10c e V) =
      Some [map (fun v => evalR (env_of V x) penv (grad ln2c ln10c v e)) V].
Proof. exact compile_gradient_sound. Qed.
Print Assumptions C03_compile_gradient.

(* vectorised power and elementwise-function sums: the closure bodies found in the source on THIS
   run compute the value of the model's derivative rule (re-proved over the generated tables) *)
Theorem C03_vectorised_unary : forall ce o, In ce gen_unary_grad -> c_case ce = CaseOp o ->
  forall d, vunary_deriv o "x" = Some d -> forall t : R, uop_reg o t ->
  eden 0%Q t (c_body ce) = evalR (fun _ => t) (fun _ => 0%R) d.
Proof. exact gen_unary_grad_correct. Qed.
Print Assumptions C03_vectorised_unary.

Theorem C03_vectorised_power : forall ce k sparse, pick_power gen_power_grad sparse k = Some ce ->
  forall t, eden k t (c_body ce) = evalR (fun _ => t) (fun _ => 0%R) (vpow_deriv k "x").
Proof. exact gen_power_grad_correct. Qed.
Print Assumptions C03_vectorised_power.

Theorem C03_vectorised_complete :
  forallb (fun o => match pick_unary gen_unary_grad false o, pick_unary gen_unary_grad true o with
                    | Some _, Some _ => true | _, _ => false end) (map snd gen_vunarysum_ops) = true
  /\ forall (k : Q) (sparse : bool), exists ce, pick_power gen_power_grad sparse k = Some ce.
Proof. split; [exact gen_unary_grad_complete | exact gen_power_grad_complete]. Qed.
Print Assumptions C03_vectorised_complete.

Example C03_overlapping_slices :
  compute_jacobian ln2c ln10c [Dot (KVar 1) [Var "x0"; Var "x1"] (KVar 2) [Var "x1"; Var "x2"]] ["x0"; "x1"; "x2"]%string
  = [[Var "x1"; Bin Add (Var "x0") (Var "x2"); Var "x1"]].
Proof. vm_compute. reflexivity. Qed.
Print Assumptions C03_overlapping_slices.
