(* ExprInd.v — strong induction principle for [expr]: the list-carrying
   constructors get a [Forall P] hypothesis on their element lists (the
   automatically generated [expr_ind] gives none, [expr] being nested through
   [list]). *)
From Coq Require Import QArith String List.
From Optyx Require Import Syntax.
Import ListNotations.

Section ExprInd.
  Variable P : expr -> Prop.
  Hypothesis HConst : forall q, P (Const q).
  Hypothesis HVar : forall x, P (Var x).
  Hypothesis HParam : forall p, P (Param p).
  Hypothesis HBin : forall o l r, P l -> P r -> P (Bin o l r).
  Hypothesis HUn : forall o a, P a -> P (Un o a).
  Hypothesis HVSum : forall vid xs, P (VSum vid xs).
  Hypothesis HLinComb : forall cs k es, Forall P es -> P (LinComb cs k es).
  Hypothesis HDot : forall kl ls kr rs, Forall P ls -> Forall P rs -> P (Dot kl ls kr rs).
  Hypothesis HL2n : forall k es, Forall P es -> P (L2n k es).
  Hypothesis HL1n : forall k es, Forall P es -> P (L1n k es).
  Hypothesis HQForm : forall k es m, Forall P es -> P (QForm k es m).
  Hypothesis HVPowSum : forall vid xs p, P (VPowSum vid xs p).
  Hypothesis HVUnSum : forall vid xs o, P (VUnSum vid xs o).
  Hypothesis HVExprSum : forall es, Forall P es -> P (VExprSum es).
  Hypothesis HMSum : forall isvar es, Forall P es -> P (MSum isvar es).
  Hypothesis HFrob : forall es, Forall P es -> P (Frob es).

  Fixpoint expr_ind' (e : expr) : P e :=
    let fix go (es : list expr) : Forall P es :=
      match es with
      | [] => Forall_nil P
      | x :: r => Forall_cons x (expr_ind' x) (go r)
      end in
    match e with
    | Const q => HConst q
    | Var x => HVar x
    | Param p => HParam p
    | Bin o l r => HBin o l r (expr_ind' l) (expr_ind' r)
    | Un o a => HUn o a (expr_ind' a)
    | VSum vid xs => HVSum vid xs
    | LinComb cs k es => HLinComb cs k es (go es)
    | Dot kl ls kr rs => HDot kl ls kr rs (go ls) (go rs)
    | L2n k es => HL2n k es (go es)
    | L1n k es => HL1n k es (go es)
    | QForm k es m => HQForm k es m (go es)
    | VPowSum vid xs p => HVPowSum vid xs p
    | VUnSum vid xs o => HVUnSum vid xs o
    | VExprSum es => HVExprSum es (go es)
    | MSum isvar es => HMSum isvar es (go es)
    | Frob es => HFrob es (go es)
    end.
End ExprInd.

Print Assumptions expr_ind'.
