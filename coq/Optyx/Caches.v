(* Caches.v — the process-wide memoisation caches.
   Mirrors functools.lru_cache as used by compiler.py (_compile_cached, maxsize from
   the generated tables), autodiff.py (_gradient_cached) and analysis.py
   (_compute_degree_cached): a bounded association list, most recently used first;
   a lookup uses the KEY EQUALITY Python uses (__eq__/__hash__ of the arguments):
   Variable and Parameter compare by name, every other expression node by identity.
   compile_expression bypasses the cache for a bare Parameter root (its closure
   reads that particular object).  No proofs here (see CachesProofs.v). *)
From Coq Require Import String List Arith Bool NArith.
From Optyx Require Import Syntax.
Import ListNotations.

(* how an expression ROOT compares as a cache key *)
Inductive rootkey := RVar (name : string) | RParam (name : string) | RNode (oid : N).

Definition rootkey_eqb (a b : rootkey) : bool :=
  match a, b with
  | RVar x, RVar y => String.eqb x y
  | RParam x, RParam y => String.eqb x y
  | RNode i, RNode j => N.eqb i j
  | _, _ => false
  end.

Section LRU.
  Variable K V : Type.
  Variable keqb : K -> K -> bool.
  Variable f : K -> V.                 (* the memoised function *)
  Variable cap : nat.                  (* maxsize *)

  Definition cache := list (K * V).

  Fixpoint find_key (k : K) (c : cache) : option (K * V) :=
    match c with
    | [] => None
    | (k', v) :: r => if keqb k' k then Some (k', v) else find_key k r
    end.

  Fixpoint remove_key (k : K) (c : cache) : cache :=
    match c with
    | [] => []
    | (k', v) :: r => if keqb k' k then r else (k', v) :: remove_key k r
    end.

  (* one call through the cache: result, new cache, hit? *)
  Definition call (c : cache) (k : K) : V * cache * bool :=
    match find_key k c with
    | Some (k', v) => (v, (k', v) :: remove_key k c, true)
    | None => let v := f k in (v, firstn cap ((k, v) :: c), false)
    end.

  Fixpoint calls (c : cache) (ks : list K) : list V * list bool * cache :=
    match ks with
    | [] => ([], [], c)
    | k :: r =>
        let '(v, c1, h) := call c k in
        let '(vs, hs, c2) := calls c1 r in
        (v :: vs, h :: hs, c2)
    end.
End LRU.

(* keys of the three caches *)
Definition compile_key := (rootkey * list string)%type.                 (* root, variable names in order *)
Definition compile_key_eqb (a b : compile_key) : bool :=
  rootkey_eqb (fst a) (fst b) && list_eqb String.eqb (snd a) (snd b).

Definition gradient_key := (rootkey * string)%type.                     (* root, wrt.name *)
Definition gradient_key_eqb (a b : gradient_key) : bool :=
  rootkey_eqb (fst a) (fst b) && String.eqb (snd a) (snd b).

Definition degree_key := (N * rootkey)%type.                            (* id(expr), expr *)
Definition degree_key_eqb (a b : degree_key) : bool :=
  N.eqb (fst a) (fst b) && rootkey_eqb (snd a) (snd b).

(* compile_expression: a bare Parameter root never goes through the cache *)
Definition goes_through_compile_cache (k : compile_key) : bool :=
  match fst k with RParam _ => false | _ => true end.
