(* ProblemSMProofs.v — C13: editing a model invalidates everything derived from
   the old model; every solve hands the solver what a fresh problem would. *)
From Coq Require Import String List Arith Bool QArith ZArith.
From Optyx Require Import Syntax Occ Degree Linear Vars SolveWrap ProblemSM.
Import ListNotations.
Close Scope Q_scope.

(* reduce record projections only; never unfold compute_vars / extract_lp *)
Ltac pj := cbn [p_obj p_max p_cons vars_c solver_c ProblemSM.lp_c lin_c
                sc_V sc_obj sc_neg sc_cons sc_hess fst snd].
Tactic Notation "pj" "in" "*" :=
  cbn [p_obj p_max p_cons vars_c solver_c ProblemSM.lp_c lin_c
       sc_V sc_obj sc_neg sc_cons sc_hess fst snd] in *.

Lemma inv_init : cache_inv init.
Proof. unfold cache_inv, init; pj; repeat split; intros; discriminate. Qed.

Lemma inv_set_edit : forall s o mx cs, cache_inv (set_edit s o mx cs).
Proof. intros. unfold cache_inv, set_edit; pj; repeat split; intros; discriminate. Qed.

Lemma inv_fresh : forall s, cache_inv (fresh s).
Proof. intros. unfold cache_inv, fresh; pj; repeat split; intros; discriminate. Qed.

(* the derived quantities depend on the model only *)
Lemma compute_vars_ext : forall s s', p_obj s' = p_obj s -> p_cons s' = p_cons s ->
  compute_vars s' = compute_vars s.
Proof. intros s s' H1 H2. unfold compute_vars. rewrite H1, H2. reflexivity. Qed.

Lemma compute_lin_ext : forall s s', p_obj s' = p_obj s -> p_cons s' = p_cons s ->
  compute_lin s' = compute_lin s.
Proof. intros s s' H1 H2. unfold compute_lin. rewrite H1, H2. reflexivity. Qed.

Lemma auto_method_ext : forall s s', p_obj s' = p_obj s -> p_cons s' = p_cons s ->
  auto_method s' = auto_method s.
Proof. intros s s' H1 H2. unfold auto_method. rewrite H1, H2. reflexivity. Qed.

Lemma variables_of_spec : forall s, cache_inv s ->
  fst (variables_of s) = compute_vars s /\ cache_inv (snd (variables_of s)) /\
  p_obj (snd (variables_of s)) = p_obj s /\ p_max (snd (variables_of s)) = p_max s /\
  p_cons (snd (variables_of s)) = p_cons s /\ solver_c (snd (variables_of s)) = solver_c s /\
  lp_c (snd (variables_of s)) = lp_c s /\ lin_c (snd (variables_of s)) = lin_c s.
Proof.
  intros s Hinv. pose proof Hinv as (Hv & Hs & Hl & Hb).
  unfold variables_of. destruct (vars_c s) as [vs|] eqn:E; pj.
  - split; [apply Hv; first [exact E | reflexivity]|]. split; [exact Hinv|]. repeat split.
  - split; [reflexivity|]. split; [|repeat split].
    unfold cache_inv. pj.
    refine (conj _ (conj _ (conj _ _))).
    + intros vs H. injection H as <-. reflexivity.
    + exact Hs.
    + exact Hl.
    + exact Hb.
Qed.

Lemma linear_of_spec : forall s, cache_inv s ->
  fst (linear_of s) = compute_lin s /\ cache_inv (snd (linear_of s)) /\
  p_obj (snd (linear_of s)) = p_obj s /\ p_max (snd (linear_of s)) = p_max s /\
  p_cons (snd (linear_of s)) = p_cons s /\ solver_c (snd (linear_of s)) = solver_c s /\
  lp_c (snd (linear_of s)) = lp_c s /\ vars_c (snd (linear_of s)) = vars_c s.
Proof.
  intros s Hinv. pose proof Hinv as (Hv & Hs & Hl & Hb).
  unfold linear_of. destruct (lin_c s) as [b|] eqn:E; pj.
  - split; [apply Hb; first [exact E | reflexivity]|]. split; [exact Hinv|]. repeat split.
  - split; [reflexivity|]. split; [|repeat split].
    unfold cache_inv. pj.
    refine (conj _ (conj _ (conj _ _))).
    + exact Hv.
    + exact Hs.
    + exact Hl.
    + intros b H. injection H as <-. reflexivity.
Qed.

Section WithTables.
  Variable bm hm : list string.

  Lemma do_lp_inv : forall st s o m, cache_inv s -> p_obj s = Some o ->
    cache_inv (fst (do_lp st s o m)).
  Proof.
    intros st s o m Hinv Ho. unfold do_lp.
    destruct (negb (is_linear_problem o (p_cons s))); [exact Hinv|].
    pose proof (variables_of_spec s Hinv) as (HV & Hinv1 & E1 & E2 & E3 & E4 & E5 & E6).
    destruct (variables_of s) as [V s1]. pj in *. subst V.
    pose proof Hinv1 as (Hv & Hs & Hl & Hb).
    unfold cache_inv. pj.
    refine (conj _ (conj _ (conj _ _))).
    - exact Hv.
    - exact Hs.
    - intros d o' Hd Ho'. injection Hd as <-.
      destruct (lp_c s1) as [d0|] eqn:Ed.
      + apply Hl; [first [exact Ed | reflexivity] | exact Ho'].
      + assert (o' = o) by congruence. subst o'.
        f_equal. unfold compute_vars; pj. rewrite E1, E3. reflexivity.
    - exact Hb.
  Qed.

  Lemma do_scipy_inv : forall st s o m, cache_inv s -> p_obj s = Some o ->
    cache_inv (fst (do_scipy bm hm st s o m)).
  Proof.
    intros st s o m Hinv Ho. unfold do_scipy.
    pose proof (variables_of_spec s Hinv) as (HV & Hinv1 & E1 & E2 & E3 & E4 & E5 & E6).
    destruct (variables_of s) as [V s1]. pj in *. subst V.
    pose proof Hinv1 as (Hv & Hs & Hl & Hb).
    unfold cache_inv. pj.
    refine (conj _ (conj _ (conj _ _))).
    - exact Hv.
    - intros c Hc. injection Hc as <-. pj.
      destruct (solver_c s1) as [c0|] eqn:Ec; pj.
      + apply Hs; first [exact Ec | reflexivity].
      + refine (conj _ (conj _ (conj _ _))); try reflexivity.
        * unfold compute_vars; pj. rewrite E1, E3. reflexivity.
        * congruence.
    - exact Hl.
    - exact Hb.
  Qed.

  (* C13_inv: after ANY sequence of operations, whatever is cached was derived from the current model *)
  Theorem step_inv : forall st s o, cache_inv s -> cache_inv (fst (step bm hm st s o)).
  Proof.
    intros st s o Hinv. destruct o; cbn [step fst]; try apply inv_set_edit; try exact Hinv.
    - pose proof (variables_of_spec s Hinv) as (_ & H & _).
      destruct (variables_of s); pj in *; exact H.
    - destruct (p_obj s) as [ob|] eqn:Eo; [|exact Hinv].
      destruct (String.eqb m "auto").
      + pose proof (linear_of_spec s Hinv) as (_ & Hinv1 & E1 & _).
        destruct (linear_of s) as [lin s1]; pj in *.
        destruct lin; [apply do_lp_inv | apply do_scipy_inv]; auto; congruence.
      + destruct (String.eqb m "linprog"); [apply do_lp_inv; auto|].
        destruct (existsb (String.eqb m) lp_methods); [apply do_lp_inv | apply do_scipy_inv]; auto.
  Qed.

  Theorem run_ops_inv : forall ops s st, cache_inv s ->
    cache_inv (fst (fst (run_ops bm hm s st ops))).
  Proof.
    induction ops as [|o r IH]; intros s st Hinv; cbn [run_ops]; [exact Hinv|].
    pose proof (step_inv st s o Hinv) as H1.
    destruct (step bm hm st s o) as [s1 ob]. pj in *.
    specialize (IH s1 (store_step st o) H1).
    destruct (run_ops bm hm s1 (store_step st o) r) as [[s2 st2] obs]. pj in *. exact IH.
  Qed.

  Corollary reachable_inv : forall ops st,
    cache_inv (fst (fst (run_ops bm hm init st ops))).
  Proof. intros. apply run_ops_inv, inv_init. Qed.

  (* closed forms: under cache_inv the observation is a function of the CURRENT
     model and the CURRENT bounds only — no cached value can be seen in it *)
  Lemma do_lp_obs_canon : forall st s o m, cache_inv s -> p_obj s = Some o ->
    snd (do_lp st s o m) =
    if negb (is_linear_problem o (p_cons s)) then ONonLinear
    else let d := extract_lp (compute_vars s) o (p_max s) (p_cons s) in
         OLinprog (linprog_c d) (lp_Aub d) (lp_bub d) (lp_Aeq d) (lp_beq d)
                  (cur_bounds st (compute_vars s)) (lp_c0 d) (lp_max d) m.
  Proof.
    intros st s o m Hinv Ho. unfold do_lp.
    destruct (negb (is_linear_problem o (p_cons s))); [reflexivity|].
    pose proof (variables_of_spec s Hinv) as (HV & Hinv1 & E1 & E2 & E3 & E4 & E5 & E6).
    destruct (variables_of s) as [V s1]. pj in *. subst V.
    pose proof Hinv1 as (Hv & Hs & Hl & Hb).
    assert (Hd : match lp_c s1 with
                 | Some d => d
                 | None => extract_lp (compute_vars s) o (p_max s1) (p_cons s1)
                 end = extract_lp (compute_vars s) o (p_max s) (p_cons s)).
    { destruct (lp_c s1) as [d|] eqn:Ed.
      - rewrite (Hl d o) by first [exact Ed | reflexivity | congruence].
        rewrite (compute_vars_ext s s1 E1 E3), E2, E3. reflexivity.
      - rewrite E2, E3. reflexivity. }
    rewrite Hd. reflexivity.
  Qed.

  Lemma do_scipy_obs_canon : forall st s o m, cache_inv s -> p_obj s = Some o ->
    snd (do_scipy bm hm st s o m) =
    OMinimize m (compute_vars s) o (p_max s) (p_cons s)
              (bounds_arg bm m (cur_bounds st (compute_vars s)))
              (existsb (String.eqb m) hm)
              (initial_point (cur_bounds st (compute_vars s))).
  Proof.
    intros st s o m Hinv Ho. unfold do_scipy.
    pose proof (variables_of_spec s Hinv) as (HV & Hinv1 & E1 & E2 & E3 & E4 & E5 & E6).
    destruct (variables_of s) as [V s1]. pj in *. subst V.
    pose proof Hinv1 as (Hv & Hs & Hl & Hb).
    destruct (solver_c s1) as [c|] eqn:Ec; pj.
    - assert (HH := Hs c). destruct HH as (A & B & C & D); [first [exact Ec | reflexivity]|].
      rewrite A, C, D. rewrite (compute_vars_ext s s1 E1 E3), E2, E3.
      assert (sc_obj c = o) as -> by congruence. reflexivity.
    - rewrite E2, E3. reflexivity.
  Qed.

  (* two valid states holding the same model are indistinguishable to the solver *)
  Lemma do_lp_obs_ext : forall st s s' o m, cache_inv s -> cache_inv s' ->
    p_obj s = Some o -> p_obj s' = p_obj s -> p_max s' = p_max s -> p_cons s' = p_cons s ->
    snd (do_lp st s' o m) = snd (do_lp st s o m).
  Proof.
    intros st s s' o m Hi Hi' Ho E1 E2 E3.
    rewrite (do_lp_obs_canon st s o m Hi Ho).
    rewrite (do_lp_obs_canon st s' o m Hi') by congruence.
    rewrite (compute_vars_ext s s' E1 E3), E2, E3. reflexivity.
  Qed.

  Lemma do_scipy_obs_ext : forall st s s' o m, cache_inv s -> cache_inv s' ->
    p_obj s = Some o -> p_obj s' = p_obj s -> p_max s' = p_max s -> p_cons s' = p_cons s ->
    snd (do_scipy bm hm st s' o m) = snd (do_scipy bm hm st s o m).
  Proof.
    intros st s s' o m Hi Hi' Ho E1 E2 E3.
    rewrite (do_scipy_obs_canon st s o m Hi Ho).
    rewrite (do_scipy_obs_canon st s' o m Hi') by congruence.
    rewrite (compute_vars_ext s s' E1 E3), E2, E3. reflexivity.
  Qed.

  (* observations of a solve in a state whose caches are valid equal those of a
     freshly constructed problem holding the same model (same objective, sense,
     constraints) under the same current bounds *)
  Lemma do_lp_obs_fresh : forall st s o m, cache_inv s -> p_obj s = Some o ->
    snd (do_lp st s o m) = snd (do_lp st (fresh s) o m).
  Proof.
    intros st s o m Hinv Ho. symmetry.
    apply do_lp_obs_ext; auto using inv_fresh.
  Qed.

  Lemma do_scipy_obs_fresh : forall st s o m, cache_inv s -> p_obj s = Some o ->
    snd (do_scipy bm hm st s o m) = snd (do_scipy bm hm st (fresh s) o m).
  Proof.
    intros st s o m Hinv Ho. symmetry.
    apply do_scipy_obs_ext; auto using inv_fresh.
  Qed.

  (* C13_fresh *)
  Theorem solve_obs_fresh : forall st s m, cache_inv s ->
    snd (step bm hm st s (OSolve m)) = snd (step bm hm st (fresh s) (OSolve m)).
  Proof.
    intros st s m Hinv. cbn [step].
    change (p_obj (fresh s)) with (p_obj s).
    destruct (p_obj s) as [o|] eqn:Eo; [|reflexivity].
    destruct (String.eqb m "auto").
    - pose proof (linear_of_spec s Hinv) as (L & Hinv1 & E1 & E2 & E3 & _).
      pose proof (linear_of_spec (fresh s) (inv_fresh s)) as (L' & Hinv1' & E1' & E2' & E3' & _).
      change (compute_lin (fresh s)) with (compute_lin s) in L'.
      change (p_obj (fresh s)) with (p_obj s) in E1'.
      change (p_max (fresh s)) with (p_max s) in E2'.
      change (p_cons (fresh s)) with (p_cons s) in E3'.
      destruct (linear_of s) as [lin s1]. destruct (linear_of (fresh s)) as [lin' s1'].
      pj in *. subst lin lin'.
      destruct (compute_lin s).
      + symmetry. apply do_lp_obs_ext; congruence.
      + rewrite (auto_method_ext s1 s1') by congruence.
        symmetry. apply do_scipy_obs_ext; congruence.
    - destruct (String.eqb m "linprog"); [apply do_lp_obs_fresh; auto|].
      destruct (existsb (String.eqb m) lp_methods); [apply do_lp_obs_fresh | apply do_scipy_obs_fresh]; auto.
  Qed.

  (* every solve of every reachable state observes what a fresh problem would *)
  Theorem reachable_solve_fresh : forall ops st0 m,
    let '(s, st, _) := run_ops bm hm init st0 ops in
    snd (step bm hm st s (OSolve m)) = snd (step bm hm st (fresh s) (OSolve m)).
  Proof.
    intros ops st0 m. pose proof (reachable_inv ops st0) as H.
    destruct (run_ops bm hm init st0 ops) as [[s st] obs]. pj in *. apply solve_obs_fresh; exact H.
  Qed.

  (* bounds handed to the solver are the CURRENT ones, whatever was cached *)
  Theorem solve_uses_current_bounds : forall st s o m c aub bub aeq beq bs c0 mx mm,
    snd (do_lp st s o m) = OLinprog c aub bub aeq beq bs c0 mx mm ->
    bs = cur_bounds st (fst (variables_of s)).
  Proof.
    intros st s o m c aub bub aeq beq bs c0 mx mm H. unfold do_lp in H.
    destruct (negb (is_linear_problem o (p_cons s))); [discriminate|].
    destruct (variables_of s) as [V s1]. pj in *. injection H as _ _ _ _ _ <- _ _ _. reflexivity.
  Qed.
End WithTables.

Example nonvacuous_history :
  let x := Var "x" in
  let ops := [OMin x; OSolve "auto"; OSetUb "x" (Some (2#1)%Q); OMax x; OSolve "auto"] in
  match run_ops [] [] init [("x", (Some 0%Q, Some 1%Q))] ops with
  | (_, _, [_; OLinprog c1 _ _ _ _ b1 _ mx1 _; _; _; OLinprog c2 _ _ _ _ b2 _ mx2 _]) =>
      mx1 = false /\ mx2 = true /\ b1 = [(Some 0%Q, Some 1%Q)] /\ b2 = [(Some 0%Q, Some (2#1)%Q)]
  | _ => False
  end.
Proof. vm_compute. repeat split. Qed.

Print Assumptions reachable_inv.
Print Assumptions solve_obs_fresh.
Print Assumptions reachable_solve_fresh.

(* ---- rejected calls ----------------------------------------------------------------
   A call that raises before it touches the problem (minimize / maximize of something that
   is not an expression, subject_to of a list with an invalid element) is invisible: the
   history with the call removed ends in the same problem state and store, and every other
   operation observes the same thing. *)
Section Rejected.
  Variables bm hm : list string.

  Lemma rejected_step : forall st s, step bm hm st s ORejected = (s, ONone) /\ store_step st ORejected = st.
  Proof. intros; split; reflexivity. Qed.

  Lemma run_ops_app : forall ops1 ops2 s st,
    run_ops bm hm s st (ops1 ++ ops2)%list =
    let '(s1, st1, o1) := run_ops bm hm s st ops1 in
    let '(s2, st2, o2) := run_ops bm hm s1 st1 ops2 in
    (s2, st2, (o1 ++ o2)%list).
  Proof.
    induction ops1 as [|o r IH]; intros ops2 s st; cbn [app run_ops].
    - destruct (run_ops bm hm s st ops2) as [[s2 st2] o2]. reflexivity.
    - destruct (step bm hm st s o) as [s1 ob]. rewrite IH.
      destruct (run_ops bm hm s1 (store_step st o) r) as [[s1' st1'] o1'].
      destruct (run_ops bm hm s1' st1' ops2) as [[s2 st2] o2]. reflexivity.
  Qed.

  Theorem rejected_transparent : forall ops1 ops2 s st,
    let '(sa, sta, oa) := run_ops bm hm s st (ops1 ++ ORejected :: ops2)%list in
    let '(sb, stb, ob) := run_ops bm hm s st (ops1 ++ ops2)%list in
    sa = sb /\ sta = stb /\
    oa = (firstn (List.length ops1) ob ++ ONone :: skipn (List.length ops1) ob)%list.
  Proof.
    intros ops1 ops2 s st. rewrite !run_ops_app.
    destruct (run_ops bm hm s st ops1) as [[s1 st1] o1] eqn:E1.
    cbn [run_ops]. destruct (rejected_step st1 s1) as [-> ->].
    destruct (run_ops bm hm s1 st1 ops2) as [[s2 st2] o2].
    assert (Hlen : List.length o1 = List.length ops1).
    { clear -E1. revert s st s1 st1 o1 E1. induction ops1 as [|o r IH]; intros s st s1 st1 o1 E1; cbn [run_ops] in E1.
      - inversion E1. reflexivity.
      - destruct (step bm hm st s o) as [s' ob]. destruct (run_ops bm hm s' (store_step st o) r) as [[s'' st''] o''] eqn:E2.
        inversion E1; subst. cbn [List.length]. f_equal. eapply IH; exact E2. }
    repeat split.
    rewrite <- Hlen, firstn_app, skipn_app, Nat.sub_diag, firstn_all, skipn_all, firstn_O, skipn_O, !app_nil_r.
    reflexivity.
  Qed.
End Rejected.
