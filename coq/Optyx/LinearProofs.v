(* LinearProofs.v — property C05: the LP data extracted by optyx (Linear.v,
   mirroring analysis.py / lp_solver.py) denote the user's model with respect to
   the real semantics of SemR.v.

   1. [linear_decomposition]: for a linear expression, at every point,
        value = (row of coefficients) . (point) + constant term.
   2. [fast_path_correct], [covers_implies_aligned]: the O(1) shortcuts agree
      with the general path when the vector operand is the problem's variable
      list; the code's guard [covers] implies that under the structural
      guarantee that the operand is a monotone selection of the variables.
   3. [C05_objective], [C05_rows], [C05_alignment], [C05_sign].
   4. Non-vacuity example.

   Division by the literal constant 0 is excluded by the explicit guard
   [nodiv0] (Python raises there). *)
From Coq Require Import Reals QArith Qreals Qpower String List Bool ZArith Arith Lia Lra Sorted.
From Optyx Require Import Syntax Occ SemR Degree Linear ExprInd DegreeProofs.
Import ListNotations.
Close Scope Q_scope.
Open Scope R_scope.

(* ------------------------------------------------------------------ *)
(** * Guards                                                           *)
(* ------------------------------------------------------------------ *)

(* no division by the literal constant zero anywhere in the tree *)
Fixpoint nodiv0 (e : expr) {struct e} : bool :=
  match e with
  | Const _ | Var _ | Param _ => true
  | Bin o l r =>
      nodiv0 l && nodiv0 r &&
      match o, r with
      | Div, Const d => negb (Qeq_bool d 0)
      | _, _ => true
      end
  | Un _ a => nodiv0 a
  | VSum _ _ | VPowSum _ _ _ | VUnSum _ _ _ => true
  | LinComb _ _ es | L2n _ es | L1n _ es | QForm _ es _ | VExprSum es | MSum _ es | Frob es =>
      forallb nodiv0 es
  | Dot _ ls _ rs => forallb nodiv0 ls && forallb nodiv0 rs
  end.

(* ------------------------------------------------------------------ *)
(** * Q / R bridge                                                     *)
(* ------------------------------------------------------------------ *)

Lemma Q2R_zero : Q2R 0 = 0.
Proof. unfold Q2R. simpl. lra. Qed.

Lemma Q2R_one : Q2R 1 = 1.
Proof. unfold Q2R. simpl. lra. Qed.

Lemma Q2R_if : forall b : bool, Q2R (if b then 1%Q else 0%Q) = if b then 1 else 0.
Proof. intros [|]; [ apply Q2R_one | apply Q2R_zero ]. Qed.

Lemma Q2R_inject_nat : forall n : nat, Q2R (inject_Z (Z.of_nat n)) = INR n.
Proof.
  intros n. unfold Q2R, inject_Z. simpl. rewrite INR_IZR_INZ. lra.
Qed.

Lemma Q2R_Qpower_positive : forall b p,
    Q2R (Qpower_positive b p) = Q2R b ^ Pos.to_nat p.
Proof.
  intros b p. induction p as [| p IH] using Pos.peano_ind.
  - simpl. lra.
  - rewrite Pos2Nat.inj_succ. simpl pow.
    rewrite <- IH, <- Q2R_mult.
    apply Qeq_eqR.
    rewrite <- Pos.add_1_l.
    rewrite Qpower_plus_positive. reflexivity.
Qed.

Lemma Q2R_Qpow_nat : forall b n, Q2R (Qpow_nat b n) = Q2R b ^ n.
Proof.
  intros b n. unfold Qpow_nat. destruct n as [| n].
  - simpl. apply Q2R_one.
  - change (Qpower b (Z.of_nat (S n))) with (Qpower_positive b (Pos.of_succ_nat n)).
    rewrite Q2R_Qpower_positive, SuccNat2Pos.id_succ. reflexivity.
Qed.

(* a literal natural exponent: Python's int() of it is that natural number *)
Lemma natural_power_trunc : forall q n,
    natural_power q = Some n -> Qtrunc q = Z.of_nat n.
Proof.
  intros q n H. unfold natural_power in H.
  destruct (Qis_int q) eqn:Hi; simpl in H; [ | discriminate H ].
  destruct (Z.leb 0 (Qfloor' q)) eqn:Hf; [ | discriminate H ].
  injection H as <-.
  apply Z.leb_le in Hf. unfold Qis_int in Hi. apply Z.eqb_eq in Hi.
  unfold Qfloor' in *. unfold Qtrunc.
  rewrite Z2Nat.id by exact Hf.
  apply Z.quot_div_nonneg; [ | reflexivity ].
  pose proof (Z_div_mod_eq_full (Qnum q) (Z.pos (Qden q))) as Hdm.
  rewrite Hi in Hdm.
  assert (Hpos : (0 < Z.pos (Qden q))%Z) by reflexivity.
  nia.
Qed.

(* ------------------------------------------------------------------ *)
(** * Weighted sums over the variable list                             *)
(* ------------------------------------------------------------------ *)

Section LSum.
  Variable rho : env.

  Definition lsum (V : list string) (g : string -> R) : R :=
    sumR (map (fun v => g v * rho v) V).

  Lemma lsum_cons : forall a V g, lsum (a :: V) g = g a * rho a + lsum V g.
  Proof. reflexivity. Qed.

  Lemma lsum_ext : forall V g h,
      (forall v, In v V -> g v = h v) -> lsum V g = lsum V h.
  Proof.
    intros V g h H. unfold lsum. f_equal. apply map_ext_in.
    intros v Hv. rewrite (H v Hv). reflexivity.
  Qed.

  Lemma lsum_zero : forall V, lsum V (fun _ => 0) = 0.
  Proof.
    induction V as [| a V IH].
    - reflexivity.
    - rewrite lsum_cons, IH. ring.
  Qed.

  Lemma lsum_add : forall V g h,
      lsum V (fun v => g v + h v) = lsum V g + lsum V h.
  Proof.
    induction V as [| a V IH]; intros g h.
    - unfold lsum. simpl. ring.
    - rewrite !lsum_cons, IH. ring.
  Qed.

  Lemma lsum_scale : forall V c g,
      lsum V (fun v => c * g v) = c * lsum V g.
  Proof.
    induction V as [| a V IH]; intros c g.
    - unfold lsum. simpl. ring.
    - rewrite !lsum_cons, IH. ring.
  Qed.

  Lemma lsum_sub : forall V g h,
      lsum V (fun v => g v - h v) = lsum V g - lsum V h.
  Proof.
    induction V as [| a V IH]; intros g h.
    - unfold lsum. simpl. ring.
    - rewrite !lsum_cons, IH. ring.
  Qed.

  Lemma lsum_opp : forall V g, lsum V (fun v => - g v) = - lsum V g.
  Proof.
    induction V as [| a V IH]; intros g.
    - unfold lsum. simpl. ring.
    - rewrite !lsum_cons, IH. ring.
  Qed.

  (* the indicator row of a single variable *)
  Lemma lsum_ind : forall V x,
      NoDup V -> In x V ->
      lsum V (fun v => if String.eqb x v then 1 else 0) = rho x.
  Proof.
    induction V as [| a V IH]; intros x Hnd Hin.
    - destruct Hin.
    - rewrite lsum_cons.
      inversion Hnd as [| a' V' Hna HndV]; subst.
      destruct (String.eqb_spec x a) as [-> | Hne].
      + rewrite (lsum_ext V _ (fun _ => 0)).
        * rewrite lsum_zero. ring.
        * intros v Hv. destruct (String.eqb_spec a v) as [-> | _];
            [ contradiction | reflexivity ].
      + destruct Hin as [-> | Hin]; [ contradiction Hne; reflexivity | ].
        rewrite (IH x HndV Hin). ring.
  Qed.

  (* the 0/1 row of a set of distinct variables *)
  Lemma lsum_mem : forall V xs,
      NoDup V -> NoDupb xs = true -> incl xs V ->
      lsum V (fun v => if mem_name v xs then 1 else 0) = sumR (map rho xs).
  Proof.
    intros V xs HndV. induction xs as [| x xs IH]; intros Hnd Hincl.
    - simpl. apply lsum_zero.
    - simpl in Hnd. apply andb_prop in Hnd. destruct Hnd as [Hx Hnd].
      apply negb_true_iff in Hx.
      rewrite (lsum_ext V _
                 (fun v => (if String.eqb x v then 1 else 0)
                           + (if mem_name v xs then 1 else 0))).
      + rewrite lsum_add.
        rewrite lsum_ind; [ | exact HndV | apply Hincl; left; reflexivity ].
        rewrite IH; [ | exact Hnd | intros y Hy; apply Hincl; right; exact Hy ].
        reflexivity.
      + intros v _. unfold mem_name. simpl.
        rewrite (String.eqb_sym v x).
        destruct (String.eqb_spec x v) as [<- | _].
        * simpl. unfold mem_name in Hx. rewrite Hx. ring.
        * simpl. ring.
  Qed.

  Lemma dotR_lsum : forall V (f : string -> Q),
      dotR (map Q2R (map f V)) (map rho V) = lsum V (fun v => Q2R (f v)).
  Proof.
    induction V as [| a V IH]; intros f.
    - reflexivity.
    - simpl. rewrite IH. reflexivity.
  Qed.
End LSum.

(* ------------------------------------------------------------------ *)
(** * Unfolding equations of the extraction functions                  *)
(* ------------------------------------------------------------------ *)

Fixpoint cv_go (cs : list Q) (es : list expr) {struct es} : option Q :=
  match cs, es with
  | c :: cs', e :: es' =>
      match const_value e, cv_go cs' es' with
      | Some x, Some t => Some (c * x + t)%Q
      | _, _ => None
      end
  | _, _ => Some 0%Q
  end.

Lemma const_value_LinComb : forall es cs,
    const_value (LinComb cs KExpr es) = cv_go cs es.
Proof.
  induction es as [| e es IH]; intros cs; destruct cs as [| c cs]; try reflexivity.
Qed.

Lemma coef_Add : forall v l r, coef v (Bin Add l r) = (coef v l + coef v r)%Q.
Proof. reflexivity. Qed.
Lemma coef_Sub : forall v l r, coef v (Bin Sub l r) = (coef v l - coef v r)%Q.
Proof. reflexivity. Qed.
Lemma coef_Mul : forall v l r,
    coef v (Bin Mul l r) =
    match const_value l with
    | Some c => (c * coef v r)%Q
    | None => match const_value r with
              | Some c => (coef v l * c)%Q
              | None => 0%Q
              end
    end.
Proof. reflexivity. Qed.
Lemma coef_Div : forall v l d, coef v (Bin Div l (Const d)) = (coef v l / d)%Q.
Proof. reflexivity. Qed.
Lemma coef_Pow : forall v l k,
    coef v (Bin Pow l (Const k)) = if Z.eqb (Qtrunc k) 1 then coef v l else 0%Q.
Proof. reflexivity. Qed.
Lemma coef_Neg : forall v a, coef v (Un Neg a) = (- coef v a)%Q.
Proof. reflexivity. Qed.
Lemma coef_LinComb_expr : forall v cs es,
    coef v (LinComb cs KExpr es) = dotQ cs (map (coef v) es).
Proof. reflexivity. Qed.
Lemma coef_LinComb_var : forall v cs vid es,
    coef v (LinComb cs (KVar vid) es) = first_coeffQ v cs es.
Proof. reflexivity. Qed.

Lemma cterm_Add : forall l r, cterm (Bin Add l r) = (cterm l + cterm r)%Q.
Proof. reflexivity. Qed.
Lemma cterm_Sub : forall l r, cterm (Bin Sub l r) = (cterm l - cterm r)%Q.
Proof. reflexivity. Qed.
Lemma cterm_Mul : forall l r,
    cterm (Bin Mul l r) =
    match const_value l with
    | Some c => (c * cterm r)%Q
    | None => match const_value r with
              | Some c => (cterm l * c)%Q
              | None => 0%Q
              end
    end.
Proof. reflexivity. Qed.
Lemma cterm_Div : forall l d, cterm (Bin Div l (Const d)) = (cterm l / d)%Q.
Proof. reflexivity. Qed.
Lemma cterm_Pow : forall l k,
    cterm (Bin Pow l (Const k)) =
    if Z.eqb (Qtrunc k) 0 then 1%Q
    else if Z.eqb (Qtrunc k) 1 then cterm l
         else match const_value (Bin Pow l (Const k)) with Some c => c | None => 0%Q end.
Proof. reflexivity. Qed.
Lemma cterm_Neg : forall a, cterm (Un Neg a) = (- cterm a)%Q.
Proof. reflexivity. Qed.
Lemma cterm_LinComb_expr : forall cs es,
    cterm (LinComb cs KExpr es) = dotQ cs (map cterm es).
Proof. reflexivity. Qed.

Lemma is_linear_inv : forall e,
    is_linear e = true -> exists d, degree e = Some d /\ (d <= 1)%nat.
Proof.
  intros e H. unfold is_linear in H.
  destruct (degree e) as [d|]; [ | discriminate H ].
  exists d. split; [ reflexivity | apply Nat.leb_le; exact H ].
Qed.

Lemma is_linear_intro : forall e d,
    degree e = Some d -> (d <= 1)%nat -> is_linear e = true.
Proof.
  intros e d H Hle. unfold is_linear. rewrite H. apply Nat.leb_le. exact Hle.
Qed.

(* ------------------------------------------------------------------ *)
(** * [const_value] is sound and complete for degree 0                 *)
(* ------------------------------------------------------------------ *)

Definition Pcv (e : expr) : Prop :=
  forall c, nodiv0 e = true -> const_value e = Some c ->
            forall rho penv, evalR rho penv e = Q2R c.

Lemma cv_go_sound : forall rho penv es,
    Forall Pcv es -> forallb nodiv0 es = true ->
    forall cs c, cv_go cs es = Some c ->
                 dotR (map Q2R cs) (map (evalR rho penv) es) = Q2R c.
Proof.
  intros rho penv es HP. induction HP as [| e es He HP IH]; intros Hnd cs c Hc.
  - destruct cs; simpl in Hc; injection Hc as <-; simpl; symmetry; apply Q2R_zero.
  - simpl in Hnd. apply andb_prop in Hnd. destruct Hnd as [Hne Hnd].
    destruct cs as [| c0 cs].
    + simpl in Hc. injection Hc as <-. simpl. symmetry. apply Q2R_zero.
    + simpl in Hc.
      destruct (const_value e) as [x|] eqn:Hx; [ | discriminate Hc ].
      destruct (cv_go cs es) as [t|] eqn:Ht; [ | discriminate Hc ].
      injection Hc as <-. simpl.
      rewrite (He x Hne Hx rho penv), (IH Hnd cs t Ht).
      rewrite Q2R_plus, Q2R_mult. reflexivity.
Qed.

Lemma sumR_const1 : forall (T : Type) (l : list T),
    sumR (map (fun _ => 1) l) = INR (length l).
Proof.
  intros T l. induction l as [| a l IH].
  - reflexivity.
  - change (sumR (map (fun _ : T => 1) (a :: l))) with (1 + sumR (map (fun _ : T => 1) l)).
    rewrite IH. simpl length. rewrite S_INR. ring.
Qed.

Lemma const_value_sound_aux : forall e, Pcv e.
Proof.
  induction e as [ q | x | p | o l r IHl IHr | o a IHa | vid xs
                 | cs k es IHes | kl ls kr rs IHls IHrs | k es IHes | k es IHes
                 | k es m IHes | vid xs p | vid xs o | es IHes | isvar es IHes
                 | es IHes ] using expr_ind';
    intros c Hnd Hc rho penv; try discriminate Hc.
  - (* Const *)
    simpl in Hc. injection Hc as <-. reflexivity.
  - (* Bin *)
    simpl in Hnd. apply andb_prop in Hnd. destruct Hnd as [Hnd Hd0].
    apply andb_prop in Hnd. destruct Hnd as [Hnl Hnr].
    destruct o.
    + (* Add *)
      simpl in Hc.
      destruct (const_value l) as [a|] eqn:Ha; [ | discriminate Hc ].
      destruct (const_value r) as [b|] eqn:Hb; [ | discriminate Hc ].
      injection Hc as <-. simpl.
      rewrite (IHl a Hnl Ha rho penv), (IHr b Hnr Hb rho penv).
      rewrite Q2R_plus. reflexivity.
    + (* Sub *)
      simpl in Hc.
      destruct (const_value l) as [a|] eqn:Ha; [ | discriminate Hc ].
      destruct (const_value r) as [b|] eqn:Hb; [ | discriminate Hc ].
      injection Hc as <-. simpl.
      rewrite (IHl a Hnl Ha rho penv), (IHr b Hnr Hb rho penv).
      rewrite Q2R_minus. reflexivity.
    + (* Mul *)
      simpl in Hc.
      destruct (const_value l) as [a|] eqn:Ha; [ | discriminate Hc ].
      destruct (const_value r) as [b|] eqn:Hb; [ | discriminate Hc ].
      injection Hc as <-. simpl.
      rewrite (IHl a Hnl Ha rho penv), (IHr b Hnr Hb rho penv).
      rewrite Q2R_mult. reflexivity.
    + (* Div *)
      destruct r as [ d | | | | | | | | | | | | | | | ]; try discriminate Hc.
      simpl in Hc.
      destruct (const_value l) as [a|] eqn:Ha; [ | discriminate Hc ].
      injection Hc as <-. simpl.
      rewrite (IHl a Hnl Ha rho penv).
      apply negb_true_iff in Hd0. apply Qeq_bool_neq in Hd0.
      rewrite Q2R_div by exact Hd0. reflexivity.
    + (* Pow *)
      destruct r as [ k | | | | | | | | | | | | | | | ]; try discriminate Hc.
      simpl in Hc.
      destruct (natural_power k) as [n|] eqn:Hn; [ | discriminate Hc ].
      simpl. rewrite (powQ_natural _ k n Hn).
      destruct n as [| n].
      * injection Hc as <-. simpl. symmetry. apply Q2R_one.
      * destruct (const_value l) as [b|] eqn:Hb; [ | discriminate Hc ].
        injection Hc as <-.
        rewrite (IHl b Hnl Hb rho penv).
        rewrite Q2R_Qpow_nat. reflexivity.
  - (* Un *)
    destruct o; try discriminate Hc.
    simpl in Hc. simpl in Hnd.
    destruct (const_value a) as [x|] eqn:Hx; [ | discriminate Hc ].
    injection Hc as <-. simpl.
    rewrite (IHa x Hnd Hx rho penv). rewrite Q2R_opp. reflexivity.
  - (* LinComb *)
    destruct k as [vid|]; [ discriminate Hc | ].
    rewrite const_value_LinComb in Hc.
    simpl in Hnd. simpl.
    exact (cv_go_sound rho penv es IHes Hnd cs c Hc).
  - (* VPowSum *)
    simpl in Hc.
    destruct (natural_power p) as [[| n]|] eqn:Hn; try discriminate Hc.
    injection Hc as <-. simpl.
    rewrite (map_ext _ (fun _ => 1)).
    + rewrite sumR_const1. symmetry. apply Q2R_inject_nat.
    + intros x. rewrite (powQ_natural _ p 0%nat Hn). reflexivity.
Qed.

Theorem const_value_sound : forall e c,
    nodiv0 e = true -> const_value e = Some c ->
    forall rho penv, evalR rho penv e = Q2R c.
Proof. intros e c Hnd Hc rho penv. exact (const_value_sound_aux e c Hnd Hc rho penv). Qed.

Definition Pd0 (e : expr) : Prop :=
  wf e = true -> degree e = Some 0%nat -> exists c, const_value e = Some c.

Lemma cv_go_complete : forall es,
    Forall Pd0 es -> forallb wf es = true ->
    Forall (fun e => exists d', degree e = Some d' /\ (d' <= 0)%nat) es ->
    forall cs, exists c, cv_go cs es = Some c.
Proof.
  intros es HP. induction HP as [| e es He HP IH]; intros Hwf Hd cs.
  - destruct cs; simpl; eexists; reflexivity.
  - simpl in Hwf. apply andb_prop in Hwf. destruct Hwf as [Hwe Hwf].
    inversion Hd as [| e' es' (d' & Hd' & Hle) Hd'' ]; subst.
    destruct cs as [| c0 cs].
    + simpl. eexists; reflexivity.
    + simpl.
      assert (Hd0 : d' = 0%nat) by lia. subst d'.
      destruct (He Hwe Hd') as (x & Hx). rewrite Hx.
      destruct (IH Hwf Hd'' cs) as (t & Ht). rewrite Ht.
      eexists; reflexivity.
Qed.

Lemma degree0_const_value_aux : forall e, Pd0 e.
Proof.
  induction e as [ q | x | p | o l r IHl IHr | o a IHa | vid xs
                 | cs k es IHes | kl ls kr rs IHls IHrs | k es IHes | k es IHes
                 | k es m IHes | vid xs p | vid xs o | es IHes | isvar es IHes
                 | es IHes ] using expr_ind';
    intros Hwf Hdeg; try discriminate Hdeg.
  - (* Const *)
    exists q. reflexivity.
  - (* Bin *)
    simpl in Hwf. apply andb_prop in Hwf. destruct Hwf as [Hwl Hwr].
    destruct o; simpl in Hdeg.
    + (* Add *)
      unfold deg_addsub, omax in Hdeg.
      destruct (degree l) as [dl|] eqn:Hdl; [ | discriminate Hdeg ].
      destruct (degree r) as [dr|] eqn:Hdr; [ | discriminate Hdeg ].
      apply Some_inj in Hdeg.
      assert (dl = 0%nat) by lia. assert (dr = 0%nat) by lia. subst dl dr.
      destruct (IHl Hwl Hdl) as (a & Ha). destruct (IHr Hwr Hdr) as (b & Hb).
      simpl. rewrite Ha, Hb. eexists; reflexivity.
    + (* Sub *)
      unfold deg_addsub, omax in Hdeg.
      destruct (degree l) as [dl|] eqn:Hdl; [ | discriminate Hdeg ].
      destruct (degree r) as [dr|] eqn:Hdr; [ | discriminate Hdeg ].
      apply Some_inj in Hdeg.
      assert (dl = 0%nat) by lia. assert (dr = 0%nat) by lia. subst dl dr.
      destruct (IHl Hwl Hdl) as (a & Ha). destruct (IHr Hwr Hdr) as (b & Hb).
      simpl. rewrite Ha, Hb. eexists; reflexivity.
    + (* Mul *)
      unfold deg_mul in Hdeg.
      destruct (degree l) as [dl|] eqn:Hdl; [ | discriminate Hdeg ].
      destruct (degree r) as [dr|] eqn:Hdr; [ | discriminate Hdeg ].
      destruct ((0 <? dl)%nat && (0 <? dr)%nat); [ discriminate Hdeg | ].
      apply Some_inj in Hdeg.
      assert (dl = 0%nat) by lia. assert (dr = 0%nat) by lia. subst dl dr.
      destruct (IHl Hwl Hdl) as (a & Ha). destruct (IHr Hwr Hdr) as (b & Hb).
      simpl. rewrite Ha, Hb. eexists; reflexivity.
    + (* Div *)
      unfold deg_div in Hdeg.
      destruct r as [ d | | | | | | | | | | | | | | | ]; try discriminate Hdeg.
      destruct (IHl Hwl Hdeg) as (a & Ha).
      simpl. rewrite Ha. eexists; reflexivity.
    + (* Pow *)
      unfold deg_pow in Hdeg.
      destruct r as [ k | | | | | | | | | | | | | | | ]; try discriminate Hdeg.
      destruct (natural_power k) as [n|] eqn:Hn; [ | discriminate Hdeg ].
      destruct (degree l) as [dl|] eqn:Hdl; [ | discriminate Hdeg ].
      apply Some_inj in Hdeg.
      simpl. rewrite Hn.
      destruct n as [| n].
      * eexists; reflexivity.
      * assert (dl = 0%nat) by lia. subst dl.
        destruct (IHl Hwl Hdl) as (b & Hb). rewrite Hb. eexists; reflexivity.
  - (* Un *)
    destruct o; simpl in Hdeg; try discriminate Hdeg.
    simpl in Hwf. destruct (IHa Hwf Hdeg) as (x & Hx).
    simpl. rewrite Hx. eexists; reflexivity.
  - (* LinComb *)
    destruct k as [vid|]; [ discriminate Hdeg | ].
    simpl in Hdeg. apply vecdeg_Forall in Hdeg.
    simpl in Hwf. apply andb_prop in Hwf. destruct Hwf as [_ Hwes].
    rewrite const_value_LinComb.
    exact (cv_go_complete es IHes Hwes Hdeg cs).
  - (* Dot *)
    rewrite degree_Dot in Hdeg.
    destruct (vec_degree degree kl ls); [ | discriminate Hdeg ].
    destruct (vec_degree degree kr rs); [ | discriminate Hdeg ].
    apply Some_inj in Hdeg. lia.
  - (* QForm *)
    rewrite degree_QForm in Hdeg.
    destruct (vec_degree degree k es); [ | discriminate Hdeg ].
    apply Some_inj in Hdeg. lia.
  - (* VPowSum *)
    simpl in Hdeg. simpl. rewrite Hdeg. eexists; reflexivity.
Qed.

Theorem degree0_const_value : forall e,
    wf e = true -> degree e = Some 0%nat -> exists c, const_value e = Some c.
Proof. intros e Hwf Hd. exact (degree0_const_value_aux e Hwf Hd). Qed.

(* ------------------------------------------------------------------ *)
(** * 1. The linear decomposition                                      *)
(* ------------------------------------------------------------------ *)

Lemma evalR_Add : forall rho penv l r,
    evalR rho penv (Bin Add l r) = evalR rho penv l + evalR rho penv r.
Proof. reflexivity. Qed.
Lemma evalR_Sub : forall rho penv l r,
    evalR rho penv (Bin Sub l r) = evalR rho penv l - evalR rho penv r.
Proof. reflexivity. Qed.
Lemma evalR_Mul : forall rho penv l r,
    evalR rho penv (Bin Mul l r) = evalR rho penv l * evalR rho penv r.
Proof. reflexivity. Qed.
Lemma evalR_Div : forall rho penv l d,
    evalR rho penv (Bin Div l (Const d)) = evalR rho penv l / Q2R d.
Proof. reflexivity. Qed.
Lemma evalR_Pow : forall rho penv l k,
    evalR rho penv (Bin Pow l (Const k)) = powQ (evalR rho penv l) k.
Proof. reflexivity. Qed.

Lemma first_coeffQ_notin : forall v es cs,
    existsb (String.eqb v) (vec_names es) = false -> first_coeffQ v cs es = 0%Q.
Proof.
  intros v es. induction es as [| a es IH]; intros cs H.
  - destruct cs; reflexivity.
  - destruct cs as [| c cs]; [ reflexivity | ].
    destruct a; simpl in H; simpl; try (apply IH; exact H).
    apply orb_false_iff in H. destruct H as [Hx H].
    rewrite String.eqb_sym, Hx. apply IH. exact H.
Qed.

(* LinearCombination over a VectorVariable *)
Lemma lincomb_var_dec : forall rho penv V es cs,
    NoDup V ->
    forallb is_var es = true -> NoDupb (vec_names es) = true ->
    incl (flat_map vars es) V ->
    dotR (map Q2R cs) (map (evalR rho penv) es)
    = lsum rho V (fun v => Q2R (first_coeffQ v cs es)).
Proof.
  intros rho penv V es cs HndV. revert cs.
  induction es as [| a es IH]; intros cs Hv Hnd Hincl.
  - rewrite (lsum_ext rho V _ (fun _ => 0)).
    + rewrite lsum_zero. destruct cs; reflexivity.
    + intros v _. destruct cs; apply Q2R_zero.
  - destruct cs as [| c cs].
    + rewrite (lsum_ext rho V _ (fun _ => 0)).
      * rewrite lsum_zero. reflexivity.
      * intros v _. apply Q2R_zero.
    + simpl in Hv. apply andb_prop in Hv. destruct Hv as [Ha Hv].
      destruct a as [ | x | | | | | | | | | | | | | | ]; try discriminate Ha.
      simpl in Hnd. apply andb_prop in Hnd. destruct Hnd as [Hx Hnd].
      apply negb_true_iff in Hx.
      simpl in Hincl.
      rewrite (lsum_ext rho V _
                 (fun v => Q2R c * (if String.eqb x v then 1 else 0)
                           + Q2R (first_coeffQ v cs es))).
      * rewrite lsum_add, lsum_scale.
        rewrite lsum_ind; [ | exact HndV | apply Hincl; left; reflexivity ].
        rewrite <- IH;
          [ | exact Hv | exact Hnd | intros y Hy; apply Hincl; right; exact Hy ].
        reflexivity.
      * intros v _. simpl.
        destruct (String.eqb_spec x v) as [<- | _].
        -- rewrite (first_coeffQ_notin x es cs Hx). rewrite Q2R_zero. ring.
        -- ring.
Qed.

Definition Pdec (e : expr) : Prop :=
  wf e = true -> nodiv0 e = true ->
  forall d, degree e = Some d -> (d <= 1)%nat ->
  forall rho penv V, NoDup V -> incl (vars e) V ->
  evalR rho penv e = lsum rho V (fun v => Q2R (coef v e)) + Q2R (cterm e).

(* LinearCombination over a VectorExpression *)
Lemma lincomb_expr_dec : forall rho penv V es,
    NoDup V ->
    Forall Pdec es ->
    forallb wf es = true -> forallb nodiv0 es = true ->
    Forall (fun e => exists d', degree e = Some d' /\ (d' <= 1)%nat) es ->
    incl (flat_map vars es) V ->
    forall cs,
    dotR (map Q2R cs) (map (evalR rho penv) es)
    = lsum rho V (fun v => Q2R (dotQ cs (map (coef v) es)))
      + Q2R (dotQ cs (map cterm es)).
Proof.
  intros rho penv V es HndV HP.
  induction HP as [| e es He HP IH]; intros Hwf Hnd Hdeg Hincl cs.
  - rewrite (lsum_ext rho V _ (fun _ => 0)).
    + rewrite lsum_zero. destruct cs; simpl; rewrite Q2R_zero; ring.
    + intros v _. destruct cs; apply Q2R_zero.
  - destruct cs as [| c cs].
    + rewrite (lsum_ext rho V _ (fun _ => 0)).
      * rewrite lsum_zero. simpl. rewrite Q2R_zero. ring.
      * intros v _. apply Q2R_zero.
    + simpl in Hwf. apply andb_prop in Hwf. destruct Hwf as [Hwe Hwf].
      simpl in Hnd. apply andb_prop in Hnd. destruct Hnd as [Hne Hnd].
      inversion Hdeg as [| e' es' (d' & Hd' & Hle) Hdeg' ]; subst.
      simpl in Hincl.
      assert (Hie : incl (vars e) V)
        by (intros y Hy; apply Hincl; apply in_or_app; left; exact Hy).
      assert (Hies : incl (flat_map vars es) V)
        by (intros y Hy; apply Hincl; apply in_or_app; right; exact Hy).
      rewrite (lsum_ext rho V _
                 (fun v => Q2R c * Q2R (coef v e)
                           + Q2R (dotQ cs (map (coef v) es)))).
      * rewrite lsum_add, lsum_scale.
        simpl. rewrite Q2R_plus, Q2R_mult.
        rewrite (He Hwe Hne d' Hd' Hle rho penv V HndV Hie).
        rewrite (IH Hwf Hnd Hdeg' Hies cs). ring.
      * intros v _. simpl. rewrite Q2R_plus, Q2R_mult. reflexivity.
Qed.

Lemma linear_decomposition_aux : forall e, Pdec e.
Proof.
  induction e as [ q | x | p | o l r IHl IHr | o a IHa | vid xs
                 | cs k es IHes | kl ls kr rs IHls IHrs | k es IHes | k es IHes
                 | k es m IHes | vid xs p | vid xs o | es IHes | isvar es IHes
                 | es IHes ] using expr_ind';
    intros Hwf Hnd d Hdeg Hle rho penv V HndV Hincl; try discriminate Hdeg.
  - (* Const *)
    rewrite (lsum_ext rho V _ (fun _ => 0)).
    + rewrite lsum_zero. simpl. ring.
    + intros v _. apply Q2R_zero.
  - (* Var *)
    rewrite (lsum_ext rho V _ (fun v => if String.eqb x v then 1 else 0)).
    + rewrite lsum_ind; [ | exact HndV | apply Hincl; left; reflexivity ].
      simpl. rewrite Q2R_zero. ring.
    + intros v _. simpl. apply Q2R_if.
  - (* Bin *)
    pose proof Hwf as Hwf0. pose proof Hnd as Hnd0.
    simpl in Hwf. apply andb_prop in Hwf. destruct Hwf as [Hwl Hwr].
    simpl in Hnd. apply andb_prop in Hnd. destruct Hnd as [Hnd Hd0].
    apply andb_prop in Hnd. destruct Hnd as [Hnl Hnr].
    simpl in Hincl.
    assert (Hil : incl (vars l) V)
      by (intros y Hy; apply Hincl; apply in_or_app; left; exact Hy).
    assert (Hir : incl (vars r) V)
      by (intros y Hy; apply Hincl; apply in_or_app; right; exact Hy).
    destruct o; simpl in Hdeg.
    + (* Add *)
      unfold deg_addsub, omax in Hdeg.
      destruct (degree l) as [dl|] eqn:Hdl; [ | discriminate Hdeg ].
      destruct (degree r) as [dr|] eqn:Hdr; [ | discriminate Hdeg ].
      apply Some_inj in Hdeg.
      rewrite (lsum_ext rho V _ (fun v => Q2R (coef v l) + Q2R (coef v r)))
        by (intros v _; rewrite coef_Add; apply Q2R_plus).
      rewrite lsum_add, cterm_Add, Q2R_plus, evalR_Add.
      rewrite (IHl Hwl Hnl dl Hdl ltac:(lia) rho penv V HndV Hil).
      rewrite (IHr Hwr Hnr dr Hdr ltac:(lia) rho penv V HndV Hir).
      ring.
    + (* Sub *)
      unfold deg_addsub, omax in Hdeg.
      destruct (degree l) as [dl|] eqn:Hdl; [ | discriminate Hdeg ].
      destruct (degree r) as [dr|] eqn:Hdr; [ | discriminate Hdeg ].
      apply Some_inj in Hdeg.
      rewrite (lsum_ext rho V _ (fun v => Q2R (coef v l) - Q2R (coef v r)))
        by (intros v _; rewrite coef_Sub; apply Q2R_minus).
      rewrite lsum_sub, cterm_Sub, Q2R_minus, evalR_Sub.
      rewrite (IHl Hwl Hnl dl Hdl ltac:(lia) rho penv V HndV Hil).
      rewrite (IHr Hwr Hnr dr Hdr ltac:(lia) rho penv V HndV Hir).
      ring.
    + (* Mul *)
      unfold deg_mul in Hdeg.
      destruct (degree l) as [dl|] eqn:Hdl; [ | discriminate Hdeg ].
      destruct (degree r) as [dr|] eqn:Hdr; [ | discriminate Hdeg ].
      destruct ((0 <? dl)%nat && (0 <? dr)%nat) eqn:Hb; [ discriminate Hdeg | ].
      apply Some_inj in Hdeg.
      rewrite cterm_Mul, evalR_Mul.
      destruct (const_value l) as [c|] eqn:Hcl.
      * rewrite (lsum_ext rho V _ (fun v => Q2R c * Q2R (coef v r)))
          by (intros v _; rewrite coef_Mul, Hcl; apply Q2R_mult).
        rewrite lsum_scale, Q2R_mult.
        rewrite (const_value_sound l c Hnl Hcl rho penv).
        rewrite (IHr Hwr Hnr dr Hdr ltac:(lia) rho penv V HndV Hir).
        ring.
      * assert (Hdl0 : dl <> 0%nat).
        { intros ->. destruct (degree0_const_value l Hwl Hdl) as (c & Hc).
          rewrite Hc in Hcl. discriminate Hcl. }
        assert (Hdr0 : dr = 0%nat).
        { apply andb_false_iff in Hb. destruct Hb as [Hb | Hb];
            apply Nat.ltb_ge in Hb; lia. }
        subst dr.
        destruct (degree0_const_value r Hwr Hdr) as (c & Hcr). rewrite Hcr.
        rewrite (lsum_ext rho V _ (fun v => Q2R c * Q2R (coef v l)))
          by (intros v _; rewrite coef_Mul, Hcl, Hcr, Q2R_mult; ring).
        rewrite lsum_scale, Q2R_mult.
        rewrite (const_value_sound r c Hnr Hcr rho penv).
        rewrite (IHl Hwl Hnl dl Hdl ltac:(lia) rho penv V HndV Hil).
        ring.
    + (* Div *)
      unfold deg_div in Hdeg.
      destruct r as [ q | | | | | | | | | | | | | | | ]; try discriminate Hdeg.
      apply negb_true_iff in Hd0. apply Qeq_bool_neq in Hd0.
      rewrite (lsum_ext rho V _ (fun v => / Q2R q * Q2R (coef v l)))
        by (intros v _; rewrite coef_Div, Q2R_div by exact Hd0;
            unfold Rdiv; ring).
      rewrite lsum_scale, cterm_Div, Q2R_div by exact Hd0.
      rewrite evalR_Div.
      rewrite (IHl Hwl Hnl d Hdeg Hle rho penv V HndV Hil).
      unfold Rdiv. ring.
    + (* Pow *)
      unfold deg_pow in Hdeg.
      destruct r as [ k | | | | | | | | | | | | | | | ]; try discriminate Hdeg.
      destruct (natural_power k) as [n|] eqn:Hn; [ | discriminate Hdeg ].
      destruct (degree l) as [dl|] eqn:Hdl; [ | discriminate Hdeg ].
      apply Some_inj in Hdeg.
      pose proof (natural_power_trunc k n Hn) as Htr.
      rewrite cterm_Pow.
      rewrite (lsum_ext rho V _
                 (fun v => Q2R (if Z.eqb (Qtrunc k) 1 then coef v l else 0%Q)))
        by (intros v _; rewrite coef_Pow; reflexivity).
      rewrite Htr.
      destruct n as [| [| n]].
      * (* exponent 0 *)
        change (Z.of_nat 0 =? 0)%Z with true.
        change (Z.of_nat 0 =? 1)%Z with false.
        rewrite lsum_ext with (h := fun _ => 0) by (intros v _; apply Q2R_zero).
        rewrite lsum_zero, evalR_Pow, (powQ_natural _ k 0%nat Hn), Q2R_one.
        simpl. ring.
      * (* exponent 1 *)
        change (Z.of_nat 1 =? 0)%Z with false.
        change (Z.of_nat 1 =? 1)%Z with true.
        rewrite evalR_Pow, (powQ_natural _ k 1%nat Hn).
        rewrite (IHl Hwl Hnl dl Hdl ltac:(lia) rho penv V HndV Hil).
        simpl. ring.
      * (* exponent >= 2: the base has degree 0 *)
        destruct dl as [| dl']; [ | simpl in Hdeg; lia ].
        assert (Hd0' : degree (Bin Pow l (Const k)) = Some 0%nat).
        { change (degree (Bin Pow l (Const k))) with (deg_pow (degree l) (Const k)).
          unfold deg_pow. rewrite Hn, Hdl. reflexivity. }
        destruct (degree0_const_value _ Hwf0 Hd0') as (c & Hc). rewrite Hc.
        rewrite (const_value_sound _ c Hnd0 Hc rho penv).
        replace (Z.of_nat (S (S n)) =? 0)%Z with false
          by (symmetry; apply Z.eqb_neq; lia).
        replace (Z.of_nat (S (S n)) =? 1)%Z with false
          by (symmetry; apply Z.eqb_neq; lia).
        rewrite lsum_ext with (h := fun _ => 0) by (intros v _; apply Q2R_zero).
        rewrite lsum_zero. ring.
  - (* Un *)
    destruct o; simpl in Hdeg; try discriminate Hdeg.
    simpl in Hwf. simpl in Hnd. simpl in Hincl.
    rewrite (lsum_ext rho V _ (fun v => - Q2R (coef v a)))
      by (intros v _; rewrite coef_Neg; apply Q2R_opp).
    rewrite lsum_opp, cterm_Neg, Q2R_opp.
    simpl. rewrite (IHa Hwf Hnd d Hdeg Hle rho penv V HndV Hincl). ring.
  - (* VSum *)
    simpl in Hwf. apply andb_prop in Hwf. destruct Hwf as [Hndx _].
    simpl in Hincl.
    rewrite (lsum_ext rho V _ (fun v => if mem_name v xs then 1 else 0))
      by (intros v _; apply Q2R_if).
    rewrite (lsum_mem rho V xs HndV Hndx Hincl).
    simpl. rewrite Q2R_zero. ring.
  - (* LinComb *)
    simpl in Hwf. apply andb_prop in Hwf. destruct Hwf as [Hwf Hwes].
    apply andb_prop in Hwf. destruct Hwf as [_ Hk].
    simpl in Hnd. simpl in Hincl.
    destruct k as [vid|].
    + (* over a VectorVariable *)
      simpl in Hk. apply andb_prop in Hk. destruct Hk as [Hv Hndn].
      rewrite (lsum_ext rho V _ (fun v => Q2R (first_coeffQ v cs es)))
        by (intros v _; rewrite coef_LinComb_var; reflexivity).
      rewrite <- (lincomb_var_dec rho penv V es cs HndV Hv Hndn Hincl).
      simpl. rewrite Q2R_zero. ring.
    + (* over a VectorExpression *)
      simpl in Hdeg. apply vecdeg_Forall in Hdeg.
      assert (Hdeg' : Forall (fun e => exists d', degree e = Some d' /\ (d' <= 1)%nat) es).
      { apply Forall_impl with (2 := Hdeg).
        intros e (d' & Hd' & Hle'). exists d'. split; [ exact Hd' | lia ]. }
      rewrite cterm_LinComb_expr.
      rewrite (lsum_ext rho V _ (fun v => Q2R (dotQ cs (map (coef v) es))))
        by (intros v _; rewrite coef_LinComb_expr; reflexivity).
      exact (lincomb_expr_dec rho penv V es HndV IHes Hwes Hnd Hdeg' Hincl cs).
  - (* Dot *)
    rewrite degree_Dot in Hdeg.
    destruct (vec_degree degree kl ls); [ | discriminate Hdeg ].
    destruct (vec_degree degree kr rs); [ | discriminate Hdeg ].
    apply Some_inj in Hdeg. lia.
  - (* QForm *)
    rewrite degree_QForm in Hdeg.
    destruct (vec_degree degree k es); [ | discriminate Hdeg ].
    apply Some_inj in Hdeg. lia.
  - (* VPowSum *)
    simpl in Hdeg. simpl in Hwf. simpl in Hincl.
    pose proof (powQ_natural) as Hpn.
    destruct d as [| [| d]]; [ | | lia ].
    + (* exponent 0 *)
      rewrite lsum_ext with (h := fun _ => 0)
        by (intros v _; simpl; rewrite Hdeg; apply Q2R_zero).
      rewrite lsum_zero. simpl. rewrite Hdeg.
      rewrite (map_ext _ (fun _ => 1))
        by (intros x; apply (powQ_natural _ p 0%nat Hdeg)).
      rewrite sumR_const1, Q2R_inject_nat. ring.
    + (* exponent 1 *)
      rewrite lsum_ext with (h := fun v => if mem_name v xs then 1 else 0)
        by (intros v _; simpl; rewrite Hdeg; apply Q2R_if).
      rewrite (lsum_mem rho V xs HndV Hwf Hincl).
      simpl. rewrite Hdeg.
      rewrite (map_ext _ rho)
        by (intros x; rewrite (powQ_natural _ p 1%nat Hdeg); simpl; ring).
      rewrite Q2R_zero. ring.
Qed.

Theorem linear_decomposition : forall e,
    wf e = true -> nodiv0 e = true -> is_linear e = true ->
    forall rho penv (V : list string),
      NoDup V -> incl (vars e) V ->
      evalR rho penv e
      = dotR (map Q2R (all_coefs V e)) (map rho V) + Q2R (cterm e).
Proof.
  intros e Hwf Hnd Hlin rho penv V HndV Hincl.
  destruct (is_linear_inv e Hlin) as (d & Hd & Hle).
  unfold all_coefs. rewrite dotR_lsum.
  exact (linear_decomposition_aux e Hwf Hnd d Hd Hle rho penv V HndV Hincl).
Qed.

(* ------------------------------------------------------------------ *)
(** * 2. The O(1) shortcuts agree with the general path                *)
(* ------------------------------------------------------------------ *)

(* the vector operand a shortcut looks at *)
Definition fast_operand (e : expr) : option (list string) :=
  match e with
  | VSum _ xs => Some xs
  | LinComb _ (KVar _) es => Some (vec_names es)
  | Bin o l r =>
      match o with
      | Add | Sub =>
          match l, r with
          | VSum _ xs, Const _ => Some xs
          | LinComb _ (KVar _) es, Const _ => Some (vec_names es)
          | _, _ => None
          end
      | Mul =>
          match l, r with
          | Const _, VSum _ xs => Some xs
          | VSum _ xs, Const _ => Some xs
          | _, _ => None
          end
      | _ => None
      end
  | _ => None
  end.

(* the operand of the shortcut is exactly the problem's ordered variable list *)
Definition aligned (V : list string) (e : expr) : bool :=
  match fast_operand e with
  | Some xs => list_eqb String.eqb xs V
  | None => true
  end.

Lemma list_eqb_string_eq : forall xs ys : list string,
    list_eqb String.eqb xs ys = true -> xs = ys.
Proof.
  induction xs as [| x xs IH]; intros ys H; destruct ys as [| y ys];
    simpl in H; try discriminate H.
  - reflexivity.
  - apply andb_prop in H. destruct H as [Hxy H].
    apply String.eqb_eq in Hxy. subst y. rewrite (IH ys H). reflexivity.
Qed.

Lemma list_eqb_string_refl : forall xs : list string,
    list_eqb String.eqb xs xs = true.
Proof.
  induction xs as [| x xs IH]; simpl.
  - reflexivity.
  - rewrite String.eqb_refl, IH. reflexivity.
Qed.

Lemma mem_name_in : forall v V, In v V -> mem_name v V = true.
Proof.
  intros v V H. unfold mem_name. apply existsb_exists.
  exists v. split; [ exact H | apply String.eqb_refl ].
Qed.

Lemma Forall2_Qeq_repeat : forall (V : list string) (f : string -> Q) c,
    (forall v, In v V -> (f v == c)%Q) ->
    Forall2 Qeq (repeat c (length V)) (map f V).
Proof.
  induction V as [| a V IH]; intros f c H.
  - constructor.
  - simpl. constructor.
    + symmetry. apply H. left. reflexivity.
    + apply IH. intros v Hv. apply H. right. exact Hv.
Qed.

Lemma Forall2_Qeq_map_ext : forall (V : list string) (f g : string -> Q) r,
    Forall2 Qeq r (map f V) ->
    (forall v, In v V -> (g v == f v)%Q) ->
    Forall2 Qeq r (map g V).
Proof.
  induction V as [| a V IH]; intros f g r H Hext.
  - simpl in *. exact H.
  - simpl in *. inversion H as [| x y r' l' Hxy Hr ]; subst.
    constructor.
    + rewrite Hxy. symmetry. apply Hext. left. reflexivity.
    + apply (IH f g r' Hr). intros v Hv. apply Hext. right. exact Hv.
Qed.

Lemma Forall2_Qeq_refl : forall r : list Q, Forall2 Qeq r r.
Proof. induction r; constructor; [ reflexivity | assumption ]. Qed.

Lemma is_var_map_Var : forall es,
    forallb is_var es = true -> es = map Var (vec_names es).
Proof.
  induction es as [| a es IH]; intros H.
  - reflexivity.
  - simpl in H. apply andb_prop in H. destruct H as [Ha H].
    destruct a; try discriminate Ha.
    simpl. rewrite <- (IH H). reflexivity.
Qed.

Lemma vec_names_length : forall es,
    forallb is_var es = true -> length (vec_names es) = length es.
Proof.
  intros es H. rewrite (is_var_map_Var es H) at 2. rewrite map_length. reflexivity.
Qed.

(* the row of a LinearCombination over the whole variable vector is its
   coefficient list *)
Lemma first_coeffQ_row : forall V cs,
    NoDup V -> length cs = length V ->
    map (fun v => first_coeffQ v cs (map Var V)) V = cs.
Proof.
  induction V as [| x V IH]; intros cs Hnd Hlen.
  - destruct cs; [ reflexivity | discriminate Hlen ].
  - destruct cs as [| c cs]; [ discriminate Hlen | ].
    inversion Hnd as [| x' V' Hx HndV ]; subst.
    simpl. rewrite String.eqb_refl. f_equal.
    transitivity (map (fun v => first_coeffQ v cs (map Var V)) V).
    + apply map_ext_in. intros v Hv.
      destruct (String.eqb_spec x v) as [<- | _]; [ contradiction | reflexivity ].
    + apply (IH cs HndV). simpl in Hlen. lia.
Qed.

Lemma coef_VSum_all : forall V vid v, In v V -> coef v (VSum vid V) = 1%Q.
Proof. intros V vid v H. simpl. rewrite (mem_name_in v V H). reflexivity. Qed.

Theorem fast_path_correct : forall V e r,
    wf e = true -> NoDup V ->
    fast_path V e = Some r -> aligned V e = true ->
    Forall2 Qeq r (all_coefs V e).
Proof.
  intros V e r Hwf HndV Hfp Hal.
  assert (HLC : forall cs vid es,
             wf (LinComb cs (KVar vid) es) = true -> vec_names es = V ->
             map (fun v => first_coeffQ v cs es) V = cs).
  { intros cs vid es Hw Hes. simpl in Hw.
    apply andb_prop in Hw. destruct Hw as [Hw _].
    apply andb_prop in Hw. destruct Hw as [Hlen Hk].
    apply andb_prop in Hk. destruct Hk as [Hv _].
    apply Nat.eqb_eq in Hlen.
    rewrite (is_var_map_Var es Hv), Hes.
    apply first_coeffQ_row; [ exact HndV | ].
    rewrite Hlen, <- Hes. symmetry. apply vec_names_length. exact Hv. }
  unfold all_coefs.
  destruct e as [ | | | o l r0 | | vid xs | cs k es | | | | | | | | | ];
    try discriminate Hfp.
  - (* Bin *)
    simpl in Hwf. apply andb_prop in Hwf. destruct Hwf as [Hwl Hwr].
    destruct o; try discriminate Hfp.
    + (* Add *)
      destruct l as [ | | | | | vid xs | cs k es | | | | | | | | | ];
        try discriminate Hfp;
        destruct r0 as [ q | | | | | | | | | | | | | | | ];
        try (destruct k; discriminate Hfp); try discriminate Hfp.
      * unfold aligned in Hal. simpl in Hal, Hfp.
        apply list_eqb_string_eq in Hal. subst xs.
        destruct (covers V V); [ | discriminate Hfp ].
        injection Hfp as <-. unfold ones.
        apply Forall2_Qeq_repeat. intros v Hv.
        rewrite coef_Add, (coef_VSum_all V vid v Hv). reflexivity.
      * destruct k as [vid|]; [ | discriminate Hfp ].
        unfold aligned in Hal. simpl in Hal, Hfp.
        apply list_eqb_string_eq in Hal.
        destruct (covers V (vec_names es)); [ | discriminate Hfp ].
        injection Hfp as <-.
        apply Forall2_Qeq_map_ext with (f := fun v => first_coeffQ v cs es).
        -- rewrite (HLC cs vid es Hwl Hal). apply Forall2_Qeq_refl.
        -- intros v _. rewrite coef_Add, coef_LinComb_var. simpl. ring.
    + (* Sub *)
      destruct l as [ | | | | | vid xs | cs k es | | | | | | | | | ];
        try discriminate Hfp;
        destruct r0 as [ q | | | | | | | | | | | | | | | ];
        try (destruct k; discriminate Hfp); try discriminate Hfp.
      * unfold aligned in Hal. simpl in Hal, Hfp.
        apply list_eqb_string_eq in Hal. subst xs.
        destruct (covers V V); [ | discriminate Hfp ].
        injection Hfp as <-. unfold ones.
        apply Forall2_Qeq_repeat. intros v Hv.
        rewrite coef_Sub, (coef_VSum_all V vid v Hv). reflexivity.
      * destruct k as [vid|]; [ | discriminate Hfp ].
        unfold aligned in Hal. simpl in Hal, Hfp.
        apply list_eqb_string_eq in Hal.
        destruct (covers V (vec_names es)); [ | discriminate Hfp ].
        injection Hfp as <-.
        apply Forall2_Qeq_map_ext with (f := fun v => first_coeffQ v cs es).
        -- rewrite (HLC cs vid es Hwl Hal). apply Forall2_Qeq_refl.
        -- intros v _. rewrite coef_Sub, coef_LinComb_var. simpl. ring.
    + (* Mul *)
      destruct l as [ c | | | | | vid xs | | | | | | | | | | ];
        try discriminate Hfp;
        destruct r0 as [ c' | | | | | vid' xs' | | | | | | | | | | ];
        try discriminate Hfp.
      * (* c * sum(x) *)
        unfold aligned in Hal. simpl in Hal, Hfp.
        apply list_eqb_string_eq in Hal. subst xs'.
        destruct (covers V V); [ | discriminate Hfp ].
        injection Hfp as <-.
        apply Forall2_Qeq_repeat. intros v Hv.
        rewrite coef_Mul. simpl const_value.
        rewrite (coef_VSum_all V vid' v Hv). ring.
      * (* sum(x) * c *)
        unfold aligned in Hal. simpl in Hal, Hfp.
        apply list_eqb_string_eq in Hal. subst xs.
        destruct (covers V V); [ | discriminate Hfp ].
        injection Hfp as <-.
        apply Forall2_Qeq_repeat. intros v Hv.
        rewrite coef_Mul. simpl const_value.
        rewrite (coef_VSum_all V vid v Hv). ring.
  - (* VSum *)
    unfold aligned in Hal. simpl in Hal, Hfp.
    apply list_eqb_string_eq in Hal. subst xs.
    destruct (covers V V); [ | discriminate Hfp ].
    injection Hfp as <-. unfold ones.
    apply Forall2_Qeq_repeat. intros v Hv.
    rewrite (coef_VSum_all V vid v Hv). reflexivity.
  - (* LinComb *)
    destruct k as [vid|]; [ | discriminate Hfp ].
    unfold aligned in Hal. simpl in Hal, Hfp.
    apply list_eqb_string_eq in Hal.
    destruct (covers V (vec_names es)); [ | discriminate Hfp ].
    injection Hfp as <-.
    apply Forall2_Qeq_map_ext with (f := fun v => first_coeffQ v cs es).
    + rewrite (HLC cs vid es Hwf Hal). apply Forall2_Qeq_refl.
    + intros v _. rewrite coef_LinComb_var. reflexivity.
Qed.

(* ---- the code's guard [covers] implies alignment for monotone selections ---- *)

Fixpoint index_in (V : list string) (x : string) : nat :=
  match V with
  | [] => 0%nat
  | v :: V' => if String.eqb x v then 0%nat else S (index_in V' x)
  end.

(* the elements of xs appear in V at strictly increasing, or strictly
   decreasing, positions (what slicing a VectorVariable can produce) *)
Definition monotone_in (V xs : list string) : Prop :=
  StronglySorted lt (map (index_in V) xs) \/ StronglySorted gt (map (index_in V) xs).

Lemma index_in_lt : forall V x, In x V -> (index_in V x < length V)%nat.
Proof.
  induction V as [| v V IH]; intros x H.
  - destruct H.
  - simpl. destruct (String.eqb_spec x v) as [-> | Hne].
    + lia.
    + destruct H as [-> | H]; [ contradiction Hne; reflexivity | ].
      specialize (IH x H). lia.
Qed.

Lemma nth_index_in : forall V x d, In x V -> nth (index_in V x) V d = x.
Proof.
  induction V as [| v V IH]; intros x d H.
  - destruct H.
  - simpl. destruct (String.eqb_spec x v) as [-> | Hne].
    + reflexivity.
    + destruct H as [-> | H]; [ contradiction Hne; reflexivity | ].
      apply IH. exact H.
Qed.

Lemma index_in_inj : forall V x y,
    In x V -> In y V -> index_in V x = index_in V y -> x = y.
Proof.
  intros V x y Hx Hy H.
  rewrite <- (nth_index_in V x EmptyString Hx), <- (nth_index_in V y EmptyString Hy), H.
  reflexivity.
Qed.

Lemma map_index_in_self : forall V, NoDup V -> map (index_in V) V = seq 0 (length V).
Proof.
  induction V as [| v V IH]; intros Hnd.
  - reflexivity.
  - inversion Hnd as [| v' V' Hv HndV ]; subst.
    simpl. rewrite String.eqb_refl. f_equal.
    rewrite <- seq_shift, <- (IH HndV), map_map.
    apply map_ext_in. intros x Hx.
    destruct (String.eqb_spec x v) as [-> | _]; [ contradiction | reflexivity ].
Qed.

Lemma map_index_in_inj : forall V xs ys,
    incl xs V -> incl ys V ->
    map (index_in V) xs = map (index_in V) ys -> xs = ys.
Proof.
  intros V xs. induction xs as [| x xs IH]; intros ys Hx Hy H;
    destruct ys as [| y ys]; simpl in H; try discriminate H.
  - reflexivity.
  - injection H as Hxy H.
    f_equal.
    + apply (index_in_inj V x y); [ apply Hx; left; reflexivity
                                  | apply Hy; left; reflexivity | exact Hxy ].
    + apply IH; [ intros z Hz; apply Hx; right; exact Hz
                | intros z Hz; apply Hy; right; exact Hz | exact H ].
Qed.

Lemma sorted_length_bound : forall l,
    StronglySorted lt l ->
    forall a b, Forall (fun i => a <= i < b)%nat l -> (length l <= b - a)%nat.
Proof.
  intros l Hs. induction Hs as [| i l Hs IH Hi]; intros a b Hab.
  - simpl. lia.
  - inversion Hab as [| i' l' Hiab Hlab ]; subst.
    assert (Hl' : Forall (fun j => S i <= j < b)%nat l).
    { rewrite Forall_forall in *. intros j Hj.
      specialize (Hi j Hj). specialize (Hlab j Hj). lia. }
    specialize (IH (S i) b Hl'). simpl. lia.
Qed.

Lemma sorted_is_seq : forall l,
    StronglySorted lt l ->
    forall a, Forall (fun i => a <= i < a + length l)%nat l -> l = seq a (length l).
Proof.
  intros l Hs. induction Hs as [| i l Hs IH Hi]; intros a Hab.
  - reflexivity.
  - inversion Hab as [| i' l' Hia Hla ]; subst.
    simpl in Hia, Hla.
    assert (Hl' : Forall (fun j => S i <= j < a + S (length l))%nat l).
    { rewrite Forall_forall in *. intros j Hj.
      specialize (Hi j Hj). specialize (Hla j Hj). lia. }
    pose proof (sorted_length_bound l Hs (S i) (a + S (length l))%nat Hl') as Hb.
    assert (Hia' : i = a) by lia. subst i.
    simpl. f_equal. apply IH.
    rewrite Forall_forall in *. intros j Hj. specialize (Hl' j Hj). lia.
Qed.

Theorem covers_implies_aligned : forall V xs,
    NoDup V -> NoDup xs -> incl xs V -> monotone_in V xs ->
    covers V xs = true -> xs = V.
Proof.
  intros V xs HndV Hndx Hincl Hmono Hcov.
  unfold covers in Hcov. apply andb_prop in Hcov. destruct Hcov as [Hlen Hhd].
  apply Nat.eqb_eq in Hlen.
  destruct Hmono as [Hinc | Hdec].
  - (* increasing positions: xs enumerates V *)
    apply (map_index_in_inj V xs V Hincl (incl_refl V)).
    rewrite (map_index_in_self V HndV).
    rewrite <- Hlen, <- (map_length (index_in V) xs).
    apply sorted_is_seq; [ exact Hinc | ].
    rewrite map_length, Hlen. apply Forall_forall. intros i Hi.
    apply in_map_iff in Hi. destruct Hi as (x & <- & Hx).
    pose proof (index_in_lt V x (Hincl x Hx)). lia.
  - (* decreasing positions with the same head: a single element *)
    destruct xs as [| x xs]; [ discriminate Hhd | ].
    destruct V as [| v V]; [ discriminate Hhd | ].
    apply String.eqb_eq in Hhd. subst v.
    simpl in Hdec. rewrite String.eqb_refl in Hdec.
    apply StronglySorted_inv in Hdec. destruct Hdec as [_ Hall].
    destruct xs as [| y xs].
    + simpl in Hlen. destruct V; [ reflexivity | discriminate Hlen ].
    + inversion Hall as [| i l Hi _ ]; subst. lia.
Qed.

(* [covers] alone (same length, same first element) does not give alignment:
   a permuted operand passes the guard and the shortcut returns the
   coefficients in the operand's order, not in the problem's order. *)
Example covers_not_sufficient :
  let V := ["x"; "y"; "z"]%string in
  let e := LinComb [1; 2; 3]%Q (KVar 0%N) [Var "x"; Var "z"; Var "y"] in
  wf e = true /\ is_linear e = true /\ incl (vars e) V /\
  covers V (vec_names [Var "x"; Var "z"; Var "y"]) = true /\
  fast_path V e = Some [1; 2; 3]%Q /\
  all_coefs V e = [1; 3; 2]%Q /\
  aligned V e = false.
Proof.
  vm_compute. repeat split; try reflexivity.
  intros a H. simpl in H. simpl. tauto.
Qed.

(* ... and then the extracted row does not denote the expression: at the point
   (x,y,z) = (0,1,0) the expression x + 2z + 3y is worth 3, the row gives 2 *)
Example covers_not_sufficient_sem :
  let V := ["x"; "y"; "z"]%string in
  let e := LinComb [1; 2; 3]%Q (KVar 0%N) [Var "x"; Var "z"; Var "y"] in
  let rho := env_of V [0; 1; 0] in
  forall penv,
    dotR (map Q2R (extract_all V e)) (map rho V) + Q2R (cterm e) = 2
    /\ evalR rho penv e = 3.
Proof.
  intros V e rho penv.
  assert (H : extract_all V e = [1; 2; 3]%Q) by (vm_compute; reflexivity).
  rewrite H. unfold V, e, rho. simpl. unfold Q2R. simpl. split; lra.
Qed.

(* ------------------------------------------------------------------ *)
(** * 3. The LP data denote the problem                                *)
(* ------------------------------------------------------------------ *)

(* what is assumed of every expression of the problem *)
Definition expr_ok (V : list string) (e : expr) : Prop :=
  wf e = true /\ nodiv0 e = true /\ incl (vars e) V /\
  (forall r, fast_path V e = Some r -> aligned V e = true).

Definition problem_ok (V : list string) (obj : expr) (cons : list (expr * sense)) : Prop :=
  NoDup V /\
  is_linear_problem obj cons = true /\
  (forall e, In e (obj :: map fst cons) -> expr_ok V e).

Lemma Forall2_Qeq_dotR : forall r s x,
    Forall2 Qeq r s -> dotR (map Q2R r) x = dotR (map Q2R s) x.
Proof.
  intros r s x H. revert x. induction H as [| a b r s Hab H IH]; intros x.
  - reflexivity.
  - destruct x as [| t x]; [ reflexivity | ].
    simpl. rewrite (Qeq_eqR a b Hab), (IH x). reflexivity.
Qed.

Lemma dotR_negv : forall r x, dotR (map Q2R (negv r)) x = - dotR (map Q2R r) x.
Proof.
  induction r as [| a r IH]; intros x.
  - simpl. ring.
  - destruct x as [| t x]; [ simpl; ring | ].
    simpl. unfold negv in IH. rewrite IH, Q2R_opp. ring.
Qed.

Lemma extract_all_sem : forall V e,
    NoDup V -> expr_ok V e -> is_linear e = true ->
    forall rho penv,
      dotR (map Q2R (extract_all V e)) (map rho V) + Q2R (cterm e) = evalR rho penv e.
Proof.
  intros V e HndV (Hwf & Hnd & Hincl & Hal) Hlin rho penv.
  rewrite (linear_decomposition e Hwf Hnd Hlin rho penv V HndV Hincl).
  f_equal. unfold extract_all.
  destruct (fast_path V e) as [r|] eqn:Hfp; [ | reflexivity ].
  apply Forall2_Qeq_dotR.
  exact (fast_path_correct V e r Hwf HndV Hfp (Hal r eq_refl)).
Qed.

Lemma problem_ok_obj : forall V obj cons,
    problem_ok V obj cons -> NoDup V /\ expr_ok V obj /\ is_linear obj = true.
Proof.
  intros V obj cons (HndV & Hlin & Hok).
  unfold is_linear_problem in Hlin. apply andb_prop in Hlin. destruct Hlin as [Hlo _].
  repeat split; [ exact HndV | | | | | exact Hlo ]; apply (Hok obj); left; reflexivity.
Qed.

Lemma problem_ok_con : forall V obj cons e s,
    problem_ok V obj cons -> In (e, s) cons -> expr_ok V e /\ is_linear e = true.
Proof.
  intros V obj cons e s (HndV & Hlin & Hok) Hin.
  unfold is_linear_problem in Hlin. apply andb_prop in Hlin. destruct Hlin as [_ Hlc].
  rewrite forallb_forall in Hlc.
  split.
  - apply Hok. right. apply in_map_iff. exists (e, s). split; [ reflexivity | exact Hin ].
  - exact (Hlc (e, s) Hin).
Qed.

(* a. the objective *)
Theorem C05_objective : forall V obj maximize cons,
    problem_ok V obj cons ->
    let lp := extract_lp V obj maximize cons in
    forall rho penv,
      dotR (map Q2R (lp_c lp)) (map rho V) + Q2R (lp_c0 lp) = evalR rho penv obj.
Proof.
  intros V obj maximize cons Hok lp rho penv.
  destruct (problem_ok_obj V obj cons Hok) as (HndV & Heo & Hlo).
  exact (extract_all_sem V obj HndV Heo Hlo rho penv).
Qed.

(* b. the constraint rows *)
Definition is_ub (c : expr * sense) : bool := negb (sense_eqb (snd c) Eq).
Definition is_eq (c : expr * sense) : bool := sense_eqb (snd c) Eq.

Definition ub_row (V : list string) (c : expr * sense) : list Q * Q :=
  match snd c with
  | Ge => (negv (extract_all V (fst c)), (- - cterm (fst c))%Q)
  | _ => (extract_all V (fst c), (- cterm (fst c))%Q)
  end.

Definition eq_row (V : list string) (c : expr * sense) : list Q * Q :=
  (extract_all V (fst c), (- cterm (fst c))%Q).

(* rows are in constraint order: the i-th "<=" row comes from the i-th
   inequality constraint, the i-th "=" row from the i-th equality constraint *)
Lemma ub_rows_char : forall V cons,
    ub_rows V cons = map (ub_row V) (filter is_ub cons).
Proof.
  intros V cons. induction cons as [| [e [| |]] cons IH]; simpl.
  - reflexivity.
  - rewrite IH. reflexivity.
  - rewrite IH. reflexivity.
  - exact IH.
Qed.

Lemma eq_rows_char : forall V cons,
    eq_rows V cons = map (eq_row V) (filter is_eq cons).
Proof.
  intros V cons. induction cons as [| [e [| |]] cons IH]; simpl.
  - reflexivity.
  - exact IH.
  - exact IH.
  - rewrite IH. reflexivity.
Qed.

Lemma row_sem : forall V e,
    NoDup V -> expr_ok V e -> is_linear e = true ->
    forall rho penv,
      dotR (map Q2R (extract_all V e)) (map rho V) - Q2R (- cterm e) = evalR rho penv e.
Proof.
  intros V e HndV Hok Hlin rho penv.
  rewrite <- (extract_all_sem V e HndV Hok Hlin rho penv).
  rewrite Q2R_opp. ring.
Qed.

Theorem C05_rows : forall V obj maximize cons,
    problem_ok V obj cons ->
    let lp := extract_lp V obj maximize cons in
    (* order-preserving structure *)
    lp_Aub lp = map (fun c => fst (ub_row V c)) (filter is_ub cons) /\
    lp_bub lp = map (fun c => snd (ub_row V c)) (filter is_ub cons) /\
    lp_Aeq lp = map (fun c => fst (eq_row V c)) (filter is_eq cons) /\
    lp_beq lp = map (fun c => snd (eq_row V c)) (filter is_eq cons) /\
    (* each row and right-hand side reproduce the constraint expression *)
    (forall e s, In (e, s) cons -> forall rho penv,
        match s with
        | Le => dotR (map Q2R (fst (ub_row V (e, s)))) (map rho V)
                - Q2R (snd (ub_row V (e, s))) = evalR rho penv e
        | Ge => dotR (map Q2R (fst (ub_row V (e, s)))) (map rho V)
                - Q2R (snd (ub_row V (e, s))) = - evalR rho penv e
        | Eq => dotR (map Q2R (fst (eq_row V (e, s)))) (map rho V)
                - Q2R (snd (eq_row V (e, s))) = evalR rho penv e
        end).
Proof.
  intros V obj maximize cons Hok lp.
  unfold lp, extract_lp. simpl.
  rewrite ub_rows_char, eq_rows_char, !map_map.
  repeat split; try reflexivity.
  intros e s Hin rho penv.
  destruct (problem_ok_con V obj cons e s Hok Hin) as (Heo & Hle).
  destruct Hok as (HndV & _ & _).
  destruct s; unfold ub_row, eq_row; simpl.
  - exact (row_sem V e HndV Heo Hle rho penv).
  - rewrite dotR_negv, Q2R_opp.
    rewrite <- (row_sem V e HndV Heo Hle rho penv). ring.
  - exact (row_sem V e HndV Heo Hle rho penv).
Qed.

(* the k-th row of each block is the row of the k-th constraint of that kind *)
Corollary C05_rows_nth : forall V cons k,
    nth_error (ub_rows V cons) k = option_map (ub_row V) (nth_error (filter is_ub cons) k)
    /\ nth_error (eq_rows V cons) k = option_map (eq_row V) (nth_error (filter is_eq cons) k).
Proof.
  intros V cons k. rewrite ub_rows_char, eq_rows_char, !nth_error_map. split; reflexivity.
Qed.

(* the sense of each constraint [e s 0] is the sense of its row *)
Corollary C05_rows_sense : forall V obj cons,
    problem_ok V obj cons ->
    forall e s, In (e, s) cons -> forall rho penv,
        match s with
        | Le => dotR (map Q2R (fst (ub_row V (e, s)))) (map rho V)
                <= Q2R (snd (ub_row V (e, s))) <-> evalR rho penv e <= 0
        | Ge => dotR (map Q2R (fst (ub_row V (e, s)))) (map rho V)
                <= Q2R (snd (ub_row V (e, s))) <-> evalR rho penv e >= 0
        | Eq => dotR (map Q2R (fst (eq_row V (e, s)))) (map rho V)
                = Q2R (snd (eq_row V (e, s))) <-> evalR rho penv e = 0
        end.
Proof.
  intros V obj cons Hok e s Hin rho penv.
  destruct (C05_rows V obj false cons Hok) as (_ & _ & _ & _ & Hsem).
  specialize (Hsem e s Hin rho penv).
  destruct s; split; intros H; lra.
Qed.

(* c. alignment of columns with the reported variable names *)
Lemma lincomb_len : forall V cs vid es,
    wf (LinComb cs (KVar vid) es) = true -> covers V (vec_names es) = true ->
    length cs = length V.
Proof.
  intros V cs vid es Hw Hc. simpl in Hw.
  apply andb_prop in Hw. destruct Hw as [Hw _].
  apply andb_prop in Hw. destruct Hw as [Hlen Hk].
  apply andb_prop in Hk. destruct Hk as [Hv _].
  apply Nat.eqb_eq in Hlen.
  unfold covers in Hc. apply andb_prop in Hc. destruct Hc as [Hc _].
  apply Nat.eqb_eq in Hc.
  rewrite Hlen, <- Hc. symmetry. apply vec_names_length. exact Hv.
Qed.

Lemma fast_path_length : forall V e r,
    wf e = true -> fast_path V e = Some r -> length r = length V.
Proof.
  intros V e r Hwf Hfp.
  destruct e as [ | | | o l r0 | | vid xs | cs k es | | | | | | | | | ];
    try discriminate Hfp.
  - simpl in Hwf. apply andb_prop in Hwf. destruct Hwf as [Hwl Hwr].
    destruct o; try discriminate Hfp.
    + destruct l as [ | | | | | vid xs | cs k es | | | | | | | | | ];
        try discriminate Hfp;
        destruct r0 as [ q | | | | | | | | | | | | | | | ];
        try (destruct k; discriminate Hfp); try discriminate Hfp.
      * simpl in Hfp. destruct (covers V xs); [ | discriminate Hfp ].
        injection Hfp as <-. apply repeat_length.
      * destruct k as [vid|]; [ | discriminate Hfp ].
        simpl in Hfp. destruct (covers V (vec_names es)) eqn:Hc; [ | discriminate Hfp ].
        injection Hfp as <-. exact (lincomb_len V cs vid es Hwl Hc).
    + destruct l as [ | | | | | vid xs | cs k es | | | | | | | | | ];
        try discriminate Hfp;
        destruct r0 as [ q | | | | | | | | | | | | | | | ];
        try (destruct k; discriminate Hfp); try discriminate Hfp.
      * simpl in Hfp. destruct (covers V xs); [ | discriminate Hfp ].
        injection Hfp as <-. apply repeat_length.
      * destruct k as [vid|]; [ | discriminate Hfp ].
        simpl in Hfp. destruct (covers V (vec_names es)) eqn:Hc; [ | discriminate Hfp ].
        injection Hfp as <-. exact (lincomb_len V cs vid es Hwl Hc).
    + destruct l as [ c | | | | | vid xs | | | | | | | | | | ];
        try discriminate Hfp;
        destruct r0 as [ c' | | | | | vid' xs' | | | | | | | | | | ];
        try discriminate Hfp.
      * simpl in Hfp. destruct (covers V xs'); [ | discriminate Hfp ].
        injection Hfp as <-. apply repeat_length.
      * simpl in Hfp. destruct (covers V xs); [ | discriminate Hfp ].
        injection Hfp as <-. apply repeat_length.
  - simpl in Hfp. destruct (covers V xs); [ | discriminate Hfp ].
    injection Hfp as <-. apply repeat_length.
  - destruct k as [vid|]; [ | discriminate Hfp ].
    simpl in Hfp. destruct (covers V (vec_names es)) eqn:Hc; [ | discriminate Hfp ].
    injection Hfp as <-. exact (lincomb_len V cs vid es Hwf Hc).
Qed.

Lemma extract_all_length : forall V e,
    wf e = true -> length (extract_all V e) = length V.
Proof.
  intros V e Hwf. unfold extract_all.
  destruct (fast_path V e) as [r|] eqn:Hfp.
  - exact (fast_path_length V e r Hwf Hfp).
  - unfold all_coefs. apply map_length.
Qed.

Theorem C05_alignment : forall V obj maximize cons,
    wf obj = true -> (forall c, In c cons -> wf (fst c) = true) ->
    let lp := extract_lp V obj maximize cons in
    lp_names lp = V /\
    length (lp_c lp) = length V /\
    Forall (fun row => length row = length V) (lp_Aub lp) /\
    Forall (fun row => length row = length V) (lp_Aeq lp) /\
    length (lp_Aub lp) = length (lp_bub lp) /\
    length (lp_Aeq lp) = length (lp_beq lp).
Proof.
  intros V obj maximize cons Hwo Hwc lp. unfold lp, extract_lp. simpl.
  split; [ reflexivity | ].
  split; [ exact (extract_all_length V obj Hwo) | ].
  rewrite ub_rows_char, eq_rows_char.
  split; [ | split; [ | split; rewrite !map_length; reflexivity ] ].
  - apply Forall_forall. intros row Hrow.
    apply in_map_iff in Hrow. destruct Hrow as (p & <- & Hp).
    apply in_map_iff in Hp. destruct Hp as (c & <- & Hc).
    apply filter_In in Hc. destruct Hc as [Hc _].
    unfold ub_row. destruct (snd c); simpl;
      try (unfold negv; rewrite map_length);
      exact (extract_all_length V (fst c) (Hwc c Hc)).
  - apply Forall_forall. intros row Hrow.
    apply in_map_iff in Hrow. destruct Hrow as (p & <- & Hp).
    apply in_map_iff in Hp. destruct Hp as (c & <- & Hc).
    apply filter_In in Hc. destruct Hc as [Hc _].
    unfold eq_row. simpl. exact (extract_all_length V (fst c) (Hwc c Hc)).
Qed.

Corollary C05_alignment_ok : forall V obj maximize cons,
    problem_ok V obj cons ->
    let lp := extract_lp V obj maximize cons in
    lp_names lp = V /\
    length (lp_c lp) = length V /\
    Forall (fun row => length row = length V) (lp_Aub lp) /\
    Forall (fun row => length row = length V) (lp_Aeq lp) /\
    length (lp_Aub lp) = length (lp_bub lp) /\
    length (lp_Aeq lp) = length (lp_beq lp).
Proof.
  intros V obj maximize cons (HndV & Hlin & Hok).
  apply C05_alignment.
  - apply (Hok obj). left. reflexivity.
  - intros c Hc. apply (Hok (fst c)). right. apply in_map. exact Hc.
Qed.

(* d. sign handling of maximisation and the reported objective value *)
Lemma dotQ_negv : forall c x, (dotQ (negv c) x == - dotQ c x)%Q.
Proof.
  induction c as [| a c IH]; intros x.
  - simpl. reflexivity.
  - destruct x as [| t x]; [ simpl; reflexivity | ].
    simpl. unfold negv in IH. rewrite IH. ring.
Qed.

Theorem C05_sign : forall lp xq,
    (* what linprog minimises is -(c.x) for a maximisation, c.x otherwise *)
    (dotQ (linprog_c lp) xq ==
     if lp_max lp then - dotQ (lp_c lp) xq else dotQ (lp_c lp) xq)%Q /\
    (* and the reported value is c.x + c0 in both orientations *)
    (reported_objective lp (dotQ (linprog_c lp) xq) == dotQ (lp_c lp) xq + lp_c0 lp)%Q.
Proof.
  intros lp xq. unfold reported_objective, linprog_c.
  destruct (lp_max lp).
  - split; [ apply dotQ_negv | rewrite dotQ_negv; ring ].
  - split; reflexivity.
Qed.

Lemma Q2R_dotQ : forall a b, Q2R (dotQ a b) = dotR (map Q2R a) (map Q2R b).
Proof.
  induction a as [| x a IH]; intros b.
  - simpl. apply Q2R_zero.
  - destruct b as [| y b]; [ simpl; apply Q2R_zero | ].
    simpl. rewrite Q2R_plus, Q2R_mult, IH. reflexivity.
Qed.

(* the value reported to the user is the user's objective at the solution *)
Theorem C05_reported_value : forall V obj maximize cons,
    problem_ok V obj cons ->
    let lp := extract_lp V obj maximize cons in
    forall (xq : list Q) rho penv,
      map rho V = map Q2R xq ->
      Q2R (reported_objective lp (dotQ (linprog_c lp) xq)) = evalR rho penv obj.
Proof.
  intros V obj maximize cons Hok lp xq rho penv Hx.
  destruct (C05_sign lp xq) as [_ Hrep].
  rewrite (Qeq_eqR _ _ Hrep), Q2R_plus, Q2R_dotQ, <- Hx.
  exact (C05_objective V obj maximize cons Hok rho penv).
Qed.

(* ------------------------------------------------------------------ *)
(** * 4. Non-vacuity                                                   *)
(* ------------------------------------------------------------------ *)

Definition exV : list string := ["x"; "y"]%string.

(* maximise (2+3)*x + 5 *)
Definition exObj : expr :=
  Bin Add (Bin Mul (Bin Add (Const 2) (Const 3)) (Var "x")) (Const 5).

Definition exCons : list (expr * sense) :=
  [ (* [1,2] @ (xy + 1) - 10 <= 0 *)
    (Bin Sub (LinComb [1; 2]%Q KExpr
                      [Bin Add (Var "x") (Const 1); Bin Add (Var "y") (Const 1)])
             (Const 10), Le);
    (* sum(xy) - 4 == 0    (shortcut) *)
    (Bin Sub (VSum 0%N ["x"; "y"]%string) (Const 4), Eq);
    (* (x + 5) ** 1 - 10 <= 0 *)
    (Bin Sub (Bin Pow (Bin Add (Var "x") (Const 5)) (Const 1)) (Const 10), Le);
    (* y - 1 >= 0 *)
    (Bin Sub (Var "y") (Const 1), Ge);
    (* [3,4] @ xy == 0      (shortcut) *)
    (LinComb [3; 4]%Q (KVar 0%N) [Var "x"; Var "y"], Eq) ].

Example ex_extract :
  extract_lp exV exObj true exCons =
  {| lp_c := [5; 0]%Q; lp_c0 := 5%Q; lp_max := true;
     lp_Aub := [ [1; 2]; [1; 0]; [0; -1] ]%Q;
     lp_bub := [ 7; 5; -1 ]%Q;
     lp_Aeq := [ [1; 1]; [3; 4] ]%Q;
     lp_beq := [ 4; 0 ]%Q;
     lp_names := ["x"; "y"]%string |}.
Proof. vm_compute. reflexivity. Qed.

(* division by a non-zero literal (values up to equality of rationals) *)
Example ex_div :
  let e := Bin Sub (Bin Div (Bin Add (Var "y") (Const 3)) (Const 2)) (Const 1) in
  wf e = true /\ nodiv0 e = true /\ is_linear e = true /\
  Forall2 Qeq (extract_all exV e) [0; 1 # 2]%Q /\ (cterm e == 1 # 2)%Q.
Proof.
  vm_compute. repeat split; try reflexivity.
  repeat constructor; reflexivity.
Qed.

Example ex_fast_paths :
  fast_path exV (Bin Sub (VSum 0%N ["x"; "y"]%string) (Const 4)) = Some [1; 1]%Q
  /\ fast_path exV (LinComb [3; 4]%Q (KVar 0%N) [Var "x"; Var "y"]) = Some [3; 4]%Q
  /\ fast_path exV exObj = None.
Proof. vm_compute. repeat split; reflexivity. Qed.

Example ex_problem_ok : problem_ok exV exObj exCons.
Proof.
  split; [ | split ].
  - unfold exV. repeat constructor; simpl; intuition discriminate.
  - vm_compute. reflexivity.
  - intros e He. simpl in He.
    repeat (destruct He as [<- | He]);
      try contradiction;
      (split; [ vm_compute; reflexivity
              | split; [ vm_compute; reflexivity
                       | split; [ intros a Ha; simpl in Ha; unfold exV; simpl; tauto
                                | intros r _; vm_compute; reflexivity ] ] ]).
Qed.

(* the theorems apply to the example: e.g. the reported objective value at the
   rational point (1, 3) is (2+3)*1 + 5 = 10 *)
Example ex_reported :
  forall penv,
    Q2R (reported_objective (extract_lp exV exObj true exCons)
           (dotQ (linprog_c (extract_lp exV exObj true exCons)) [1; 3]%Q))
    = evalR (env_of exV [1; 3]) penv exObj.
Proof.
  intros penv.
  apply (C05_reported_value exV exObj true exCons ex_problem_ok [1; 3]%Q).
  simpl. rewrite Q2R_one. f_equal. f_equal. unfold Q2R. simpl. lra.
Qed.

Print Assumptions const_value_sound.
Print Assumptions degree0_const_value.
Print Assumptions linear_decomposition.
Print Assumptions fast_path_correct.
Print Assumptions covers_implies_aligned.
Print Assumptions C05_objective.
Print Assumptions C05_rows.
Print Assumptions C05_rows_nth.
Print Assumptions C05_rows_sense.
Print Assumptions C05_alignment.
Print Assumptions C05_sign.
Print Assumptions C05_reported_value.
Print Assumptions ex_problem_ok.
