(* JacobianProofs.v — property C03: the compiled gradient / Jacobian returns the
   matrix whose (i,j) entry is the partial derivative of expression i w.r.t.
   variable j, for every ordered variable list (any permutation, any superset);
   the specialised shortcuts (per-node Jacobian rows, constant rows, uniformly
   scaled rows, products of overlapping slices of one vector) return exactly
   what the general path returns.

   "General path value" = [evalR rho penv (grad ln2c ln10c v e)]; that this is
   the true partial derivative at regular points is AutodiffProofs.grad_correct
   (not used here: this file does not depend on AutodiffProofs).

   Findings about the hypotheses:
   - [jac_row_sound] does NOT need [dot_same_ok]: for a product of a vector
     with itself the shortcut row and the registered gradient rule are the same
     tree ([jac_row_sound_gen] is the statement without it; the hypothesis is
     what makes that common answer the true derivative, in grad_correct).
   - [wf e] IS needed ([wf_needed_lincomb]): with a repeated name in a
     LinearCombination the row takes the LAST coefficient, the gradient rule
     the FIRST (and the true derivative is their sum).  The API cannot build
     such a vector (VectorVariable elements have distinct names).
   - no domain / regularity hypothesis is needed: all the equalities hold as
     equalities of real numbers at every point.
   - [NoDup V] IS needed for the paths to agree ([nodup_needed_scaled]): the
     scaled fast path multiplies x positionally, the general path reads the
     LAST index of a repeated name. *)
From Coq Require Import String List Arith Bool QArith ZArith Reals Qreals Lia Lra.
From Optyx Require Import Syntax Occ SemR Machine Autodiff Compile ArrTerm Jacobian
     ExprInd MachineProofs CompileProofs.
Import ListNotations.
Close Scope Q_scope.
Close Scope R_scope.
Open Scope nat_scope.

(* ------------------------------------------------------------------ *)
(** * Side predicates *)

(* in every product of a VectorVariable with an operand carrying the SAME
   object id, the two element lists are the same (equal ids = same Python
   object, the harness numbers objects by identity) *)
Fixpoint dot_same_ok (e : expr) : bool :=
  match e with
  | Const _ | Var _ | Param _ | VSum _ _ | VPowSum _ _ _ | VUnSum _ _ _ => true
  | Bin _ l r => dot_same_ok l && dot_same_ok r
  | Un _ a => dot_same_ok a
  | LinComb _ _ es | L2n _ es | L1n _ es | QForm _ es _ | VExprSum es | MSum _ es
  | Frob es => forallb dot_same_ok es
  | Dot kl ls kr rs =>
      match kl, kr with
      | KVar i, KVar j => if N.eqb i j then list_eqb expr_eqb ls rs else true
      | _, _ => true
      end && forallb dot_same_ok ls && forallb dot_same_ok rs
  end.

(* compile_jacobian does not take one of its two vectorised paths *)
Definition not_vector_path (es : list expr) : bool :=
  match es with
  | [VPowSum _ _ _] => false
  | [VUnSum _ _ _] => false
  | _ => true
  end.

(* ------------------------------------------------------------------ *)
(** * Generic list lemmas *)

Lemma sumR_app' : forall l1 l2, sumR (l1 ++ l2) = (sumR l1 + sumR l2)%R.
Proof.
  induction l1 as [|a l1 IH]; intros l2; simpl.
  - lra.
  - rewrite IH. lra.
Qed.

Lemma forallb_Forall' : forall {A} (p : A -> bool) (l : list A),
    forallb p l = true -> Forall (fun a => p a = true) l.
Proof.
  intros A p l H. apply Forall_forall. intros a Ha.
  rewrite forallb_forall in H. apply H. exact Ha.
Qed.

Lemma all_some_map_inv : forall {A B} (f : A -> option B) (l : list A) (r : list B),
    all_some (map f l) = Some r -> Forall2 (fun a b => f a = Some b) l r.
Proof.
  intros A B f. induction l as [|a l IH]; intros r H; simpl in H.
  - inversion H. constructor.
  - destruct (f a) as [b|] eqn:Ea; [|discriminate].
    destruct (all_some (map f l)) as [r'|] eqn:Er; [|discriminate].
    inversion H; subst. constructor; [exact Ea | apply IH; reflexivity].
Qed.

Lemma all_some_map_total : forall {A B} (f : A -> option B) (l : list A),
    Forall (fun a => exists b, f a = Some b) l -> exists r, all_some (map f l) = Some r.
Proof.
  intros A B f. induction l as [|a l IH]; intros H.
  - exists []. reflexivity.
  - inversion H as [|a' l' [b Hb] Hl]; subst.
    destruct (IH Hl) as [r Hr]. exists (b :: r). simpl. rewrite Hb, Hr. reflexivity.
Qed.

Lemma Forall2_map_eq : forall {A B C} (g : A -> C) (h : B -> C) (l : list A) (r : list B),
    Forall2 (fun a b => g a = h b) l r -> map g l = map h r.
Proof.
  intros A B C g h l r H. induction H as [|a b l r Hab Hlr IH]; simpl.
  - reflexivity.
  - rewrite Hab, IH. reflexivity.
Qed.

Lemma Forall2_impl_l : forall {A B} (P : A -> Prop) (R1 R2 : A -> B -> Prop) (l : list A) (r : list B),
    (forall a b, P a -> R1 a b -> R2 a b) ->
    Forall P l -> Forall2 R1 l r -> Forall2 R2 l r.
Proof.
  intros A B P R1 R2 l r Himp HP H. induction H as [|a b l r Hab Hlr IH].
  - constructor.
  - inversion HP; subst. constructor; [apply Himp; assumption | apply IH; assumption].
Qed.

Lemma Forall_map_intro : forall {A B} (P : B -> Prop) (f : A -> B) (l : list A),
    (forall a, In a l -> P (f a)) -> Forall P (map f l).
Proof.
  intros A B P f l H. apply Forall_forall. intros b Hb.
  apply in_map_iff in Hb. destruct Hb as [a [Hab Ha]]. subst. apply H. exact Ha.
Qed.

(* ------------------------------------------------------------------ *)
(** * Evaluation of the simplifiers (local copies; AutodiffProofs not used) *)

Lemma Q2R_0_ : Q2R 0 = 0%R.
Proof. unfold Q2R. simpl. lra. Qed.
Lemma Q2R_1_ : Q2R 1 = 1%R.
Proof. unfold Q2R. simpl. lra. Qed.
Lemma Q2R_2_ : Q2R 2 = 2%R.
Proof. unfold Q2R. simpl. lra. Qed.

Lemma Q2R_of_nat : forall n, Q2R (inject_Z (Z.of_nat n)) = INR n.
Proof.
  intros n. unfold Q2R. simpl. rewrite INR_IZR_INZ. lra.
Qed.

Section Ev.
  Variables rho penv : env.
  Notation ev := (evalR rho penv).

  Lemma ev_c0 : ev c0 = 0%R.
  Proof. exact Q2R_0_. Qed.
  Lemma ev_c1 : ev c1 = 1%R.
  Proof. exact Q2R_1_. Qed.

  Lemma is_zero_ev : forall e, is_zero e = true -> ev e = 0%R.
  Proof.
    intros e H. destruct e; simpl in H; try discriminate.
    apply Qeq_bool_iff in H. simpl. rewrite (Qeq_eqR _ _ H). exact Q2R_0_.
  Qed.

  Lemma is_one_ev : forall e, is_one e = true -> ev e = 1%R.
  Proof.
    intros e H. destruct e; simpl in H; try discriminate.
    apply Qeq_bool_iff in H. simpl. rewrite (Qeq_eqR _ _ H). exact Q2R_1_.
  Qed.

  Lemma ev_Add : forall a b, ev (Bin Add a b) = (ev a + ev b)%R.
  Proof. reflexivity. Qed.
  Lemma ev_Mul : forall a b, ev (Bin Mul a b) = (ev a * ev b)%R.
  Proof. reflexivity. Qed.

  Lemma s_add_ev : forall a b, ev (s_add a b) = (ev a + ev b)%R.
  Proof.
    intros a b. unfold s_add.
    destruct (is_zero a) eqn:Ha.
    - rewrite (is_zero_ev a Ha). lra.
    - destruct (is_zero b) eqn:Hb.
      + rewrite (is_zero_ev b Hb). lra.
      + apply ev_Add.
  Qed.

  Lemma s_mul_ev : forall a b, ev (s_mul a b) = (ev a * ev b)%R.
  Proof.
    intros a b. unfold s_mul.
    destruct (is_zero a) eqn:Ha.
    - simpl. rewrite (is_zero_ev a Ha), Q2R_0_. lra.
    - destruct (is_zero b) eqn:Hb.
      + simpl. rewrite (is_zero_ev b Hb), Q2R_0_. lra.
      + simpl. destruct (is_one a) eqn:Ha1.
        * rewrite (is_one_ev a Ha1). lra.
        * destruct (is_one b) eqn:Hb1.
          -- rewrite (is_one_ev b Hb1). lra.
          -- apply ev_Mul.
  Qed.

  Lemma scale_l_ev : forall c e, ev (scale_l c e) = (Q2R c * ev e)%R.
  Proof.
    intros c e. destruct e; try reflexivity.
    simpl. apply Q2R_mult.
  Qed.

  Lemma scale_r_ev : forall c e, ev (scale_r c e) = (Q2R c * ev e)%R.
  Proof.
    intros c e. destruct e; try (simpl; lra).
    simpl. apply Q2R_mult.
  Qed.

  Lemma fold_add_ev : forall r t,
      ev (fold_left (fun acc x => Bin Add acc x) r t) = (ev t + sumR (map ev r))%R.
  Proof.
    induction r as [|a r IH]; intros t; simpl.
    - lra.
    - rewrite IH. rewrite ev_Add. lra.
  Qed.

  Lemma join_add_ev : forall ts, ev (join_add ts) = sumR (map ev ts).
  Proof.
    intros [|t r]; simpl.
    - exact Q2R_0_.
    - apply fold_add_ev.
  Qed.

  Lemma sum_grad_ev : forall des acc,
      ev (sum_grad des acc) = (ev acc + sumR (map ev des))%R.
  Proof.
    induction des as [|d des IH]; intros acc; simpl.
    - lra.
    - rewrite IH, s_add_ev. lra.
  Qed.

  Lemma dot_vv_grad_ev : forall v ls rs acc,
      ev (dot_vv_grad v ls rs acc) = (ev acc + sumR (map ev (dot_contribs v ls rs)))%R.
  Proof.
    intros v. induction ls as [|l ls IH]; intros rs acc.
    - simpl. lra.
    - destruct rs as [|r rs].
      + simpl. lra.
      + simpl dot_vv_grad. simpl dot_contribs. rewrite IH.
        rewrite !map_app, !sumR_app'.
        assert (H1 : forall a,
                   ev (match l with
                       | Var x => if String.eqb x v then s_add a r else a
                       | _ => a end) =
                   (ev a + sumR (map ev (match l with
                                         | Var x => if String.eqb x v then [r] else []
                                         | _ => [] end)))%R).
        { intros a. destruct l; try (simpl; lra).
          destruct (String.eqb x v); simpl; rewrite ?s_add_ev; lra. }
        assert (H2 : forall a,
                   ev (match r with
                       | Var y => if String.eqb y v then s_add a l else a
                       | _ => a end) =
                   (ev a + sumR (map ev (match r with
                                         | Var y => if String.eqb y v then [l] else []
                                         | _ => [] end)))%R).
        { intros a. destruct r; try (simpl; lra).
          destruct (String.eqb x v); simpl; rewrite ?s_add_ev; lra. }
        rewrite H2, H1. lra.
  Qed.
End Ev.

(* ------------------------------------------------------------------ *)
(** * LinearCombination: last coefficient = first coefficient for distinct names *)

Lemma last_coeff_notin : forall v es,
    existsb (String.eqb v) (vec_names es) = false ->
    forall cs found, last_coeff v cs es found = found.
Proof.
  intros v. induction es as [|a es IH]; intros Hn cs found.
  - destruct cs; reflexivity.
  - destruct cs as [|c cs]; [reflexivity|].
    destruct a; simpl in *; try (apply IH; exact Hn).
    apply orb_false_iff in Hn. destruct Hn as [Hx Hn].
    rewrite String.eqb_sym, Hx. apply IH. exact Hn.
Qed.

Lemma last_first_coeff : forall v es,
    NoDupb (vec_names es) = true ->
    forall cs, Const (last_coeff v cs es 0%Q) = first_coeff v cs es.
Proof.
  intros v. induction es as [|a es IH]; intros Hnd cs.
  - destruct cs; reflexivity.
  - destruct cs as [|c cs]; [reflexivity|].
    destruct a; simpl in *; try (apply IH; exact Hnd).
    apply andb_true_iff in Hnd. destruct Hnd as [Hx Hnd].
    destruct (String.eqb_spec x v) as [Heq|Hne].
    + subst x. rewrite last_coeff_notin; [reflexivity|].
      apply negb_true_iff in Hx. exact Hx.
    + apply IH. exact Hnd.
Qed.

(* ------------------------------------------------------------------ *)
(** * MatrixSum over a MatrixVariable *)

Lemma msum_count_ev : forall ln2c ln10c rho penv v es,
    forallb is_var es = true ->
    sumR (map (evalR rho penv) (map (grad ln2c ln10c v) es)) = INR (count_name v es).
Proof.
  intros ln2c ln10c rho penv v. induction es as [|a es IH]; intros Hv.
  - reflexivity.
  - simpl in Hv. apply andb_true_iff in Hv. destruct Hv as [Ha Hv].
    destruct a; simpl in Ha; try discriminate.
    unfold count_name in *. simpl map. simpl filter.
    destruct (String.eqb x v).
    + simpl length. rewrite S_INR. simpl sumR. rewrite (IH Hv). rewrite Q2R_1_. lra.
    + simpl sumR. rewrite (IH Hv). rewrite Q2R_0_. lra.
Qed.

(* ------------------------------------------------------------------ *)
(** * Shape of [jac_row] on a BinaryOp *)

Section RowShape.
  Variable V : list string.

  Lemma const_dec : forall e : expr, {c | e = Const c} + {forall c, e <> Const c}.
  Proof.
    intros e. destruct e; try (right; intros c Hc; discriminate Hc).
    left. exists q. reflexivity.
  Qed.

  (* [jac_row]'s nested matches elaborate to a very large term: each of the
     following is ONE unfolding, checked by conversion *)
  Lemma jac_row_Add : forall l r,
      jac_row V (Bin Add l r) =
      match r with
      | Const _ => jac_row V l
      | _ => match l with Const _ => jac_row V r | _ => None end
      end.
  Proof. intros l r. reflexivity. Qed.

  Lemma jac_row_Sub : forall l r,
      jac_row V (Bin Sub l r) = match r with Const _ => jac_row V l | _ => None end.
  Proof. intros l r. reflexivity. Qed.

  Lemma jac_row_Div : forall l r, jac_row V (Bin Div l r) = None.
  Proof. intros l r. reflexivity. Qed.

  Lemma jac_row_Pow : forall l r, jac_row V (Bin Pow l r) = None.
  Proof. intros l r. reflexivity. Qed.

  Lemma jac_row_Mul : forall l r,
      jac_row V (Bin Mul l r) =
      let right_case :=
          match r with
          | Const c => match jac_row V l with
                       | Some row => Some (map (scale_r c) row) | None => None end
          | _ => None
          end in
      match l with
      | Const c => match jac_row V r with
                   | Some row => Some (map (scale_l c) row)
                   | None => right_case
                   end
      | _ => right_case
      end.
  Proof. intros l r. reflexivity. Qed.


  (* the rows of the non-BinaryOp nodes *)
  Definition flat_row (e : expr) : option (list expr) :=
    match e with
    | VSum _ xs => Some (map (fun v => if mem v xs then c1 else c0) V)
    | LinComb cs (KVar _) es => Some (map (fun v => Const (last_coeff v cs es 0%Q)) V)
    | Dot (KVar i) ls (KVar j) rs =>
        if N.eqb i j then
          Some (map (fun v => if mem v (vec_names ls) then Bin Mul c2 (Var v) else c0) V)
        else
          Some (map (fun v => join_add (dot_contribs v ls rs)) V)
    | VPowSum _ xs k => Some (map (fun v => if mem v xs then vpow_deriv k v else c0) V)
    | VUnSum _ xs o =>
        match vunary_deriv o "x" with
        | Some _ => Some (map (fun v => if mem v xs
                                        then match vunary_deriv o v with Some d => d | None => c0 end
                                        else c0) V)
        | None => None
        end
    | MSum true es => Some (map (fun v => Const (inject_Z (Z.of_nat (count_name v es)))) V)
    | QForm (KVar i) es m =>
        Some (map (fun v => match index_of v es 0 with
                            | Some k => LinComb (qsym_row m k (List.length es)) (KVar i) es
                            | None => c0 end) V)
    | _ => None
    end.

  Lemma jac_row_flat : forall e,
      match e with Bin _ _ _ => True | _ => jac_row V e = flat_row e end.
  Proof. intros e. destruct e; try exact I; reflexivity. Qed.

  Opaque jac_row.

  Lemma jac_row_Const : forall c, jac_row V (Const c) = None.
  Proof. intros c. exact (jac_row_flat (Const c)). Qed.

  Lemma is_const_inv : forall e, is_const e = true -> exists c, e = Const c.
  Proof. intros e H. destruct e; try discriminate H. eexists. reflexivity. Qed.

  Lemma jac_row_Add_b : forall l r,
      jac_row V (Bin Add l r) =
      if is_const r then jac_row V l else if is_const l then jac_row V r else None.
  Proof.
    intros l r. rewrite jac_row_Add.
    destruct r; try reflexivity; destruct l; reflexivity.
  Qed.

  Lemma jac_row_Mul_c : forall c r,
      jac_row V (Bin Mul (Const c) r) =
      match jac_row V r with Some row => Some (map (scale_l c) row) | None => None end.
  Proof.
    intros c r. rewrite jac_row_Mul. cbv zeta.
    destruct (jac_row V r); [reflexivity|].
    rewrite jac_row_Const. destruct r; reflexivity.
  Qed.

  Lemma jac_row_Mul_nc : forall l r,
      (forall c, l <> Const c) ->
      jac_row V (Bin Mul l r) =
      match r with
      | Const c => match jac_row V l with
                   | Some row => Some (map (scale_r c) row) | None => None end
      | _ => None
      end.
  Proof.
    intros l r Hl. rewrite jac_row_Mul. cbv zeta.
    destruct l; try reflexivity.
    exfalso. eapply Hl. reflexivity.
  Qed.

  Lemma jac_row_Bin_inv : forall o l r row,
      jac_row V (Bin o l r) = Some row ->
      (exists c, (o = Add \/ o = Sub) /\ r = Const c /\ jac_row V l = Some row) \/
      (exists c, o = Add /\ l = Const c /\ jac_row V r = Some row) \/
      (exists c row', o = Mul /\ l = Const c /\ jac_row V r = Some row' /\
                      row = map (scale_l c) row') \/
      (exists c row', o = Mul /\ r = Const c /\ jac_row V l = Some row' /\
                      row = map (scale_r c) row').
  Proof.
    intros o l r row H.
    destruct o.
    - (* Add *)
      rewrite jac_row_Add_b in H.
      destruct (is_const r) eqn:Hr.
      + destruct (is_const_inv r Hr) as [c Hc]. subst r. left. exists c. auto.
      + destruct (is_const l) eqn:Hl; [|discriminate H].
        destruct (is_const_inv l Hl) as [c Hc]. subst l. right; left. exists c. auto.
    - (* Sub *)
      rewrite jac_row_Sub in H.
      destruct r; try discriminate H.
      left. exists q. auto.
    - (* Mul *)
      destruct (const_dec l) as [[c Hc]|Hl].
      + subst l. rewrite jac_row_Mul_c in H.
        destruct (jac_row V r) as [row'|] eqn:Er; [|discriminate H].
        right; right; left. exists c, row'. inversion H. auto.
      + rewrite (jac_row_Mul_nc l r Hl) in H.
        destruct r; try discriminate H.
        destruct (jac_row V l) as [row'|] eqn:El; [|discriminate H].
        right; right; right. exists q, row'. inversion H. auto.
    - rewrite jac_row_Div in H. discriminate H.
    - rewrite jac_row_Pow in H. discriminate H.
  Qed.
End RowShape.

(* ------------------------------------------------------------------ *)
(** * 1. the per-node rows agree with the general path *)

Ltac flat H :=
  match type of H with jac_row ?V ?e = _ => rewrite (jac_row_flat V e) in H end.

Section RowSound.
  Variables ln2c ln10c : Q.
  Variable V : list string.
  Variables rho penv : env.
  Notation ev := (evalR rho penv).
  Notation g := (grad ln2c ln10c).

  Definition row_ok (e : expr) (row : list expr) : Prop :=
    map ev row = map (fun v => ev (g v e)) V.

  Lemma map_scale_ev : forall (sc : Q -> expr -> expr) c row' f,
      (forall t, ev (sc c t) = (Q2R c * ev t)%R) ->
      map ev row' = map f V ->
      map ev (map (sc c) row') = map (fun v => (Q2R c * f v)%R) V.
  Proof.
    intros sc c row' f Hsc Hrow.
    rewrite map_map.
    rewrite <- (map_map f (fun t => (Q2R c * t)%R)).
    rewrite <- Hrow. rewrite map_map.
    apply map_ext. intros t. apply Hsc.
  Qed.

  Lemma jac_row_sound_aux : forall e row,
      wf e = true -> jac_row V e = Some row -> row_ok e row.
  Proof.
    unfold row_ok.
    induction e as [ q | y | p | o l r IHl IHr | o a IHa | vid xs | cs k es IHes
                   | kl ls kr rs IHls IHrs | k es IHes | k es IHes | k es m IHes
                   | vid xs p | vid xs o | es IHes | isvar es IHes | es IHes ]
                     using expr_ind'; intros row Hwf Hrow;
      try (flat Hrow; simpl in Hrow; discriminate Hrow).
    - (* Bin *)
      simpl in Hwf. apply andb_true_iff in Hwf. destruct Hwf as [Hwl Hwr].
      destruct (jac_row_Bin_inv V o l r row Hrow)
        as [[c [Ho [Hr Hl]]] | [[c [Ho [Hl Hr]]] | [[c [row' [Ho [Hl [Hr Hrw]]]]] | [c [row' [Ho [Hr [Hl Hrw]]]]]]]].
      + (* f +- c *)
        subst r. rewrite (IHl row Hwl Hl). apply map_ext. intros v.
        destruct Ho as [Ho|Ho]; subst o.
        * change (g v (Bin Add l (Const c))) with (s_add (g v l) c0).
          rewrite s_add_ev, ev_c0. lra.
        * reflexivity.
      + (* c + f *)
        subst o l. rewrite (IHr row Hwr Hr). apply map_ext. intros v.
        change (g v (Bin Add (Const c) r)) with (s_add c0 (g v r)).
        rewrite s_add_ev, ev_c0. lra.
      + (* c * f *)
        subst o l row.
        rewrite (map_scale_ev scale_l c row' (fun v => ev (g v r)) (scale_l_ev rho penv c)
                              (IHr row' Hwr Hr)).
        apply map_ext. intros v.
        change (g v (Bin Mul (Const c) r)) with (s_add (s_mul (Const c) (g v r)) (s_mul r c0)).
        rewrite s_add_ev, !s_mul_ev, ev_c0. simpl. lra.
      + (* f * c *)
        subst o r row.
        rewrite (map_scale_ev scale_r c row' (fun v => ev (g v l)) (scale_r_ev rho penv c)
                              (IHl row' Hwl Hl)).
        apply map_ext. intros v.
        change (g v (Bin Mul l (Const c))) with (s_add (s_mul l c0) (s_mul (Const c) (g v l))).
        rewrite s_add_ev, !s_mul_ev, ev_c0. simpl. lra.
    - (* VSum *)
      flat Hrow. simpl in Hrow. inversion Hrow; subst row.
      rewrite map_map. apply map_ext. intros v. reflexivity.
    - (* LinComb *)
      flat Hrow. destruct k as [i|]; simpl in Hrow; [|discriminate Hrow].
      inversion Hrow; subst row.
      rewrite map_map. apply map_ext. intros v.
      simpl in Hwf. apply andb_true_iff in Hwf. destruct Hwf as [Hwf _].
      apply andb_true_iff in Hwf. destruct Hwf as [_ Hk].
      apply andb_true_iff in Hk. destruct Hk as [_ Hnd].
      rewrite (last_first_coeff v es Hnd cs). reflexivity.
    - (* Dot *)
      flat Hrow.
      destruct kl as [i|]; [|simpl in Hrow; discriminate Hrow].
      destruct kr as [j|]; [|simpl in Hrow; discriminate Hrow].
      simpl in Hrow. simpl g.
      destruct (N.eqb i j).
      + inversion Hrow; subst row.
        rewrite map_map. apply map_ext. intros v. reflexivity.
      + inversion Hrow; subst row.
        rewrite map_map. apply map_ext. intros v.
        rewrite join_add_ev, dot_vv_grad_ev, ev_c0. lra.
    - (* QForm *)
      flat Hrow. destruct k as [i|]; simpl in Hrow; [|discriminate Hrow].
      inversion Hrow; subst row.
      rewrite map_map. apply map_ext. intros v. reflexivity.
    - (* VPowSum *)
      flat Hrow. simpl in Hrow. inversion Hrow; subst row.
      rewrite map_map. apply map_ext. intros v. reflexivity.
    - (* VUnSum *)
      flat Hrow. simpl in Hrow.
      destruct (vunary_deriv o "x"); [|discriminate Hrow].
      inversion Hrow; subst row.
      rewrite map_map. apply map_ext. intros v. reflexivity.
    - (* MSum *)
      flat Hrow. destruct isvar; simpl in Hrow; [|discriminate Hrow].
      inversion Hrow; subst row.
      rewrite map_map. apply map_ext. intros v.
      simpl in Hwf. apply andb_true_iff in Hwf. destruct Hwf as [Hv _].
      simpl g. rewrite sum_grad_ev, ev_c0.
      rewrite (msum_count_ev ln2c ln10c rho penv v es Hv).
      simpl. rewrite Q2R_of_nat. lra.
  Qed.
End RowSound.

(* the statement without [dot_same_ok] (not needed: see the header) *)
Theorem jac_row_sound_gen : forall ln2c ln10c V e row,
    wf e = true -> jac_row V e = Some row ->
    forall rho penv,
      map (evalR rho penv) row =
      map (fun v => evalR rho penv (grad ln2c ln10c v e)) V.
Proof.
  intros ln2c ln10c V e row Hwf Hrow rho penv.
  exact (jac_row_sound_aux ln2c ln10c V rho penv e row Hwf Hrow).
Qed.

Theorem jac_row_sound : forall ln2c ln10c V e row,
    wf e = true -> dot_same_ok e = true -> jac_row V e = Some row ->
    forall rho penv,
      map (evalR rho penv) row =
      map (fun v => evalR rho penv (grad ln2c ln10c v e)) V.
Proof.
  intros ln2c ln10c V e row Hwf _ Hrow. apply jac_row_sound_gen; assumption.
Qed.

(* ------------------------------------------------------------------ *)
(** * 2. compute_jacobian: every row, shortcut or not, has the general-path values *)

Theorem compute_jacobian_sound_gen : forall ln2c ln10c es V rho penv,
    Forall (fun e => wf e = true) es ->
    map (map (evalR rho penv)) (compute_jacobian ln2c ln10c es V) =
    map (fun e => map (fun v => evalR rho penv (grad ln2c ln10c v e)) V) es.
Proof.
  intros ln2c ln10c es V rho penv Hwf.
  unfold compute_jacobian. rewrite map_map. apply map_ext_in. intros e He.
  rewrite Forall_forall in Hwf.
  destruct (jac_row V e) as [row|] eqn:Erow.
  - apply (jac_row_sound_gen ln2c ln10c V e row (Hwf e He) Erow).
  - rewrite map_map. reflexivity.
Qed.

Theorem compute_jacobian_sound : forall ln2c ln10c es V rho penv,
    Forall (fun e => wf e = true) es ->
    Forall (fun e => dot_same_ok e = true) es ->
    map (map (evalR rho penv)) (compute_jacobian ln2c ln10c es V) =
    map (fun e => map (fun v => evalR rho penv (grad ln2c ln10c v e)) V) es.
Proof.
  intros ln2c ln10c es V rho penv Hwf _. apply compute_jacobian_sound_gen. exact Hwf.
Qed.

(* ------------------------------------------------------------------ *)
(** * Row entries are well-formed trees over the listed variables *)

Lemma scale_l_wf : forall c t, wf t = true -> wf (scale_l c t) = true.
Proof. intros c t H. destruct t; simpl in *; auto. Qed.

Lemma scale_r_wf : forall c t, wf t = true -> wf (scale_r c t) = true.
Proof. intros c t H. destruct t; simpl in *; rewrite ?H; auto. Qed.

Lemma scale_l_vars : forall c t, vars (scale_l c t) = vars t.
Proof. intros c t. destruct t; reflexivity. Qed.

Lemma scale_r_vars : forall c t, vars (scale_r c t) = vars t.
Proof. intros c t. destruct t; simpl; rewrite ?app_nil_r; reflexivity. Qed.

Lemma fold_add_wf : forall r t,
    wf t = true -> Forall (fun u => wf u = true) r ->
    wf (fold_left (fun acc u => Bin Add acc u) r t) = true.
Proof.
  induction r as [|a r IH]; intros t Ht Hr; simpl.
  - exact Ht.
  - inversion Hr; subst. apply IH; [|assumption]. simpl. rewrite Ht. assumption.
Qed.

Lemma join_add_wf : forall ts,
    Forall (fun u => wf u = true) ts -> wf (join_add ts) = true.
Proof.
  intros [|t r] H; simpl.
  - reflexivity.
  - inversion H; subst. apply fold_add_wf; assumption.
Qed.

Lemma fold_add_vars : forall W r t,
    incl (vars t) W -> Forall (fun u => incl (vars u) W) r ->
    incl (vars (fold_left (fun acc u => Bin Add acc u) r t)) W.
Proof.
  intros W. induction r as [|a r IH]; intros t Ht Hr; simpl.
  - exact Ht.
  - inversion Hr; subst. apply IH; [|assumption]. simpl. apply incl_app; assumption.
Qed.

Lemma join_add_vars : forall W ts,
    Forall (fun u => incl (vars u) W) ts -> incl (vars (join_add ts)) W.
Proof.
  intros W [|t r] H; simpl.
  - intros y Hy. destruct Hy.
  - inversion H; subst. apply fold_add_vars; assumption.
Qed.

Lemma dot_contribs_Forall : forall (P : expr -> Prop) v ls rs,
    Forall P ls -> Forall P rs -> Forall P (dot_contribs v ls rs).
Proof.
  intros P v. induction ls as [|l ls IH]; intros rs Hl Hr.
  - constructor.
  - destruct rs as [|r rs]; [constructor|].
    inversion Hl; subst. inversion Hr; subst. simpl.
    apply Forall_app. split; [|apply Forall_app; split].
    + destruct l; try constructor. destruct (String.eqb x v); repeat constructor; assumption.
    + destruct r; try constructor. destruct (String.eqb x v); repeat constructor; assumption.
    + apply IH; assumption.
Qed.

Lemma flat_map_vars_Forall : forall W es,
    incl (flat_map vars es) W -> Forall (fun u => incl (vars u) W) es.
Proof.
  intros W. induction es as [|a es IH]; intros H.
  - constructor.
  - simpl in H. constructor.
    + eapply incl_app_l. exact H.
    + apply IH. eapply incl_app_r. exact H.
Qed.

Lemma vpow_deriv_wf : forall k v, wf (vpow_deriv k v) = true.
Proof.
  intros k v. unfold vpow_deriv.
  destruct (Qeq_bool k 1); [reflexivity|]. destruct (Qeq_bool k 2); reflexivity.
Qed.

Lemma vpow_deriv_vars : forall k v, incl (vars (vpow_deriv k v)) [v].
Proof.
  intros k v. unfold vpow_deriv.
  destruct (Qeq_bool k 1); [intros y Hy; destruct Hy|].
  destruct (Qeq_bool k 2); intros y Hy; simpl in Hy; exact Hy.
Qed.

Lemma vunary_deriv_wf : forall o v d, vunary_deriv o v = Some d -> wf d = true.
Proof.
  intros o v d H. destruct o; simpl in H; inversion H; reflexivity.
Qed.

Lemma vunary_deriv_vars : forall o v d, vunary_deriv o v = Some d -> incl (vars d) [v].
Proof.
  intros o v d H.
  destruct o; simpl in H; inversion H; subst d; intros y Hy; simpl in Hy;
    intuition (subst; simpl; auto).
Qed.

Section RowEntries.
  Variable V : list string.

  Lemma jac_row_wf : forall e row,
      wf e = true -> jac_row V e = Some row -> Forall (fun t => wf t = true) row.
  Proof.
    induction e as [ q | y | p | o l r IHl IHr | o a IHa | vid xs | cs k es IHes
                   | kl ls kr rs IHls IHrs | k es IHes | k es IHes | k es m IHes
                   | vid xs p | vid xs o | es IHes | isvar es IHes | es IHes ]
                     using expr_ind'; intros row Hwf Hrow;
      try (flat Hrow; simpl in Hrow; discriminate Hrow).
    - (* Bin *)
      simpl in Hwf. apply andb_true_iff in Hwf. destruct Hwf as [Hwl Hwr].
      destruct (jac_row_Bin_inv V o l r row Hrow)
        as [[c [Ho [Hr Hl]]] | [[c [Ho [Hl Hr]]] | [[c [row' [Ho [Hl [Hr Hrw]]]]] | [c [row' [Ho [Hr [Hl Hrw]]]]]]]].
      + apply IHl; assumption.
      + apply IHr; assumption.
      + subst row. apply Forall_map_intro. intros t Ht.
        apply scale_l_wf. pose proof (IHr row' Hwr Hr) as Hf.
        rewrite Forall_forall in Hf. apply Hf. exact Ht.
      + subst row. apply Forall_map_intro. intros t Ht.
        apply scale_r_wf. pose proof (IHl row' Hwl Hl) as Hf.
        rewrite Forall_forall in Hf. apply Hf. exact Ht.
    - (* VSum *)
      flat Hrow. simpl in Hrow. inversion Hrow; subst row.
      apply Forall_map_intro. intros v _. destruct (mem v xs); reflexivity.
    - (* LinComb *)
      flat Hrow. destruct k as [i|]; simpl in Hrow; [|discriminate Hrow].
      inversion Hrow; subst row. apply Forall_map_intro. intros v _. reflexivity.
    - (* Dot *)
      flat Hrow.
      destruct kl as [i|]; [|simpl in Hrow; discriminate Hrow].
      destruct kr as [j|]; [|simpl in Hrow; discriminate Hrow].
      simpl in Hrow.
      simpl in Hwf. apply andb_true_iff in Hwf. destruct Hwf as [Hwf Hwrs].
      apply andb_true_iff in Hwf. destruct Hwf as [Hwf Hwls].
      destruct (N.eqb i j); inversion Hrow; subst row; apply Forall_map_intro; intros v _.
      + destruct (mem v (vec_names ls)); reflexivity.
      + apply join_add_wf. apply dot_contribs_Forall; apply forallb_Forall'; assumption.
    - (* QForm *)
      flat Hrow. destruct k as [i|]; simpl in Hrow; [|discriminate Hrow].
      inversion Hrow; subst row. apply Forall_map_intro. intros v _.
      destruct (index_of v es 0) as [j|]; [|reflexivity].
      simpl in Hwf. apply andb_true_iff in Hwf. destruct Hwf as [Hwf _].
      apply andb_true_iff in Hwf. destruct Hwf as [Hwf _].
      apply andb_true_iff in Hwf. destruct Hwf as [Hk Hes].
      simpl. unfold qsym_row. rewrite map_length, seq_length, Nat.eqb_refl.
      simpl in Hk. rewrite Hk, Hes. reflexivity.
    - (* VPowSum *)
      flat Hrow. simpl in Hrow. inversion Hrow; subst row.
      apply Forall_map_intro. intros v _.
      destruct (mem v xs); [apply vpow_deriv_wf | reflexivity].
    - (* VUnSum *)
      flat Hrow. simpl in Hrow.
      destruct (vunary_deriv o "x"); [|discriminate Hrow].
      inversion Hrow; subst row. apply Forall_map_intro. intros v _.
      destruct (mem v xs); [|reflexivity].
      destruct (vunary_deriv o v) as [d|] eqn:Ed; [|reflexivity].
      eapply vunary_deriv_wf. exact Ed.
    - (* MSum *)
      flat Hrow. destruct isvar; simpl in Hrow; [|discriminate Hrow].
      inversion Hrow; subst row. apply Forall_map_intro. intros v _. reflexivity.
  Qed.

  Lemma incl_single : forall (v : string), In v V -> incl [v] V.
  Proof. intros v Hv y Hy. destruct Hy as [Hy|[]]. subst. exact Hv. Qed.

  Lemma jac_row_vars : forall e row,
      incl (vars e) V -> jac_row V e = Some row -> Forall (fun t => incl (vars t) V) row.
  Proof.
    induction e as [ q | y | p | o l r IHl IHr | o a IHa | vid xs | cs k es IHes
                   | kl ls kr rs IHls IHrs | k es IHes | k es IHes | k es m IHes
                   | vid xs p | vid xs o | es IHes | isvar es IHes | es IHes ]
                     using expr_ind'; intros row Hinc Hrow;
      try (flat Hrow; simpl in Hrow; discriminate Hrow).
    - (* Bin *)
      simpl in Hinc.
      assert (Hil : incl (vars l) V) by (eapply incl_app_l; exact Hinc).
      assert (Hir : incl (vars r) V) by (eapply incl_app_r; exact Hinc).
      destruct (jac_row_Bin_inv V o l r row Hrow)
        as [[c [Ho [Hr Hl]]] | [[c [Ho [Hl Hr]]] | [[c [row' [Ho [Hl [Hr Hrw]]]]] | [c [row' [Ho [Hr [Hl Hrw]]]]]]]].
      + apply IHl; assumption.
      + apply IHr; assumption.
      + subst row. apply Forall_map_intro. intros t Ht.
        rewrite scale_l_vars. pose proof (IHr row' Hir Hr) as Hf.
        rewrite Forall_forall in Hf. apply Hf. exact Ht.
      + subst row. apply Forall_map_intro. intros t Ht.
        rewrite scale_r_vars. pose proof (IHl row' Hil Hl) as Hf.
        rewrite Forall_forall in Hf. apply Hf. exact Ht.
    - (* VSum *)
      flat Hrow. simpl in Hrow. inversion Hrow; subst row.
      apply Forall_map_intro. intros v _.
      destruct (mem v xs); intros y Hy; destruct Hy.
    - (* LinComb *)
      flat Hrow. destruct k as [i|]; simpl in Hrow; [|discriminate Hrow].
      inversion Hrow; subst row. apply Forall_map_intro. intros v _ y Hy. destruct Hy.
    - (* Dot *)
      flat Hrow.
      destruct kl as [i|]; [|simpl in Hrow; discriminate Hrow].
      destruct kr as [j|]; [|simpl in Hrow; discriminate Hrow].
      simpl in Hrow. simpl in Hinc.
      destruct (N.eqb i j); inversion Hrow; subst row; apply Forall_map_intro; intros v Hv.
      + destruct (mem v (vec_names ls)).
        * simpl. apply incl_single. exact Hv.
        * intros y Hy. destruct Hy.
      + apply join_add_vars. apply dot_contribs_Forall; apply flat_map_vars_Forall.
        * eapply incl_app_l. exact Hinc.
        * eapply incl_app_r. exact Hinc.
    - (* QForm *)
      flat Hrow. destruct k as [i|]; simpl in Hrow; [|discriminate Hrow].
      inversion Hrow; subst row. apply Forall_map_intro. intros v _.
      destruct (index_of v es 0) as [j|].
      + exact Hinc.
      + intros y Hy. destruct Hy.
    - (* VPowSum *)
      flat Hrow. simpl in Hrow. inversion Hrow; subst row.
      apply Forall_map_intro. intros v Hv.
      destruct (mem v xs).
      + eapply incl_tran; [apply vpow_deriv_vars | apply incl_single; exact Hv].
      + intros y Hy. destruct Hy.
    - (* VUnSum *)
      flat Hrow. simpl in Hrow.
      destruct (vunary_deriv o "x"); [|discriminate Hrow].
      inversion Hrow; subst row. apply Forall_map_intro. intros v Hv.
      destruct (mem v xs); [|intros y Hy; destruct Hy].
      destruct (vunary_deriv o v) as [d|] eqn:Ed; [|intros y Hy; destruct Hy].
      eapply incl_tran; [eapply vunary_deriv_vars; exact Ed | apply incl_single; exact Hv].
    - (* MSum *)
      flat Hrow. destruct isvar; simpl in Hrow; [|discriminate Hrow].
      inversion Hrow; subst row. apply Forall_map_intro. intros v _ y Hy. destruct Hy.
  Qed.
End RowEntries.

(* ------------------------------------------------------------------ *)
(** * 3. the paths of compile_jacobian *)

(* the point read back through the variable list is the point *)
Lemma map_env_of_self : forall V (x : list R),
    NoDup V -> List.length x = List.length V -> map (env_of V x) V = x.
Proof.
  induction V as [|v V IH]; intros x Hnd Hlen.
  - destruct x; [reflexivity | discriminate Hlen].
  - destruct x as [|t x]; [discriminate Hlen|].
    inversion Hnd as [|v' V' Hnin Hnd']; subst.
    simpl. rewrite String.eqb_refl. f_equal.
    transitivity (map (env_of V x) V);
      [|apply IH; [exact Hnd' | simpl in Hlen; lia]].
    apply map_ext_in. intros y Hy.
    destruct (String.eqb_spec y v) as [Heq|Hne]; [|reflexivity].
    subst y. contradiction.
Qed.

(* everything compile_jacobian does after computing the symbolic Jacobian *)
Definition general_path (V : list string) (jac : list (list expr)) : option (list (list clo)) :=
  all_some (map (fun row => all_some (map (build V) row)) jac).

Definition select_path (V : list string) (jac : list (list expr)) : jpath :=
  match const_matrix jac with
  | Some m => JConst m
  | None =>
      let scaled := match jac with
                    | [row] => if Nat.eqb (List.length row) (List.length V)
                               then scaled_pattern row V None else None
                    | _ => None end in
      match scaled with
      | Some c => JScaled c
      | None => match general_path V jac with
                | Some m => JGeneral m
                | None => JError
                end
      end
  end.

Lemma compile_jacobian_select : forall ln2c ln10c es V,
    not_vector_path es = true ->
    compile_jacobian ln2c ln10c es V = select_path V (compute_jacobian ln2c ln10c es V).
Proof.
  intros ln2c ln10c es V Hnv.
  unfold compile_jacobian, select_path, general_path.
  set (jac := compute_jacobian ln2c ln10c es V). clearbody jac.
  destruct es as [|e [|e' es']]; try reflexivity;
    destruct e; try reflexivity; discriminate Hnv.
Qed.

Section Paths.
  Variable V : list string.
  Variable x : list R.
  Variable penv : string -> R.
  Notation rho := (env_of V x).
  Notation ev := (evalR (env_of V x) penv).

  (* JConst: every entry is a literal *)
  Lemma const_row_ev : forall row qs,
      all_some (map (fun e => match e with Const q => Some q | _ => None end) row) = Some qs ->
      map ev row = map Q2R qs.
  Proof.
    intros row qs H. apply all_some_map_inv in H.
    apply Forall2_map_eq.
    eapply Forall2_impl_l with (P := fun _ => True); [| apply Forall_forall; intros; exact I | exact H].
    intros a b _ Hab. destruct a; try discriminate Hab. inversion Hab. reflexivity.
  Qed.

  Lemma const_matrix_ev : forall jac m,
      const_matrix jac = Some m -> map (map ev) jac = map (map Q2R) m.
  Proof.
    intros jac m H. unfold const_matrix in H. apply all_some_map_inv in H.
    apply Forall2_map_eq.
    eapply Forall2_impl_l with (P := fun _ => True); [| apply Forall_forall; intros; exact I | exact H].
    intros a b _ Hab. apply const_row_ev. exact Hab.
  Qed.

  (* JScaled: entry j is c * Var V_j *)
  Lemma scaled_entry_ev : forall e v c,
      scaled_entry e v = Some c -> ev e = (Q2R c * rho v)%R.
  Proof.
    intros e v c H.
    destruct e as [ | | | o l r | | | | | | | | | | | | ]; try discriminate H.
    destruct o; try discriminate H.
    destruct l as [cl|xl| | | | | | | | | | | | | | ]; try discriminate H.
    - destruct r as [|xr| | | | | | | | | | | | | | ]; try discriminate H.
      simpl in H. destruct (String.eqb_spec xr v) as [Heq|Hne]; [|discriminate H].
      inversion H; subst. reflexivity.
    - destruct r as [cr| | | | | | | | | | | | | | | ]; try discriminate H.
      simpl in H. destruct (String.eqb_spec xl v) as [Heq|Hne]; [|discriminate H].
      inversion H; subst. simpl. lra.
  Qed.

  Lemma scaled_pattern_ev : forall row W s c,
      scaled_pattern row W s = Some c ->
      (forall s', s = Some s' -> Qeq s' c) /\
      map ev row = map (fun v => (Q2R c * rho v)%R) W.
  Proof.
    induction row as [|e row IH]; intros W s c H.
    - destruct W as [|w W]; [|discriminate H]. simpl in H. subst s.
      split; [|reflexivity]. intros s' Hs'. inversion Hs'. apply Qeq_refl.
    - destruct W as [|w W]; [discriminate H|]. simpl in H.
      destruct (scaled_entry e w) as [ce|] eqn:Ee; [|discriminate H].
      destruct s as [s0|].
      + destruct (Qeq_bool s0 ce) eqn:Eq; [|discriminate H].
        apply Qeq_bool_iff in Eq.
        destruct (IH W (Some s0) c H) as [Hs Hmap].
        pose proof (Hs s0 eq_refl) as Hs0.
        split.
        * intros s' Hs'. inversion Hs'; subst. exact Hs0.
        * simpl. rewrite Hmap. f_equal.
          rewrite (scaled_entry_ev e w ce Ee).
          rewrite (Qeq_eqR ce c); [reflexivity|].
          eapply Qeq_trans; [apply Qeq_sym; exact Eq | exact Hs0].
      + destruct (IH W (Some ce) c H) as [Hs Hmap].
        pose proof (Hs ce eq_refl) as Hce.
        split.
        * intros s' Hs'. discriminate Hs'.
        * simpl. rewrite Hmap. f_equal.
          rewrite (scaled_entry_ev e w ce Ee).
          rewrite (Qeq_eqR ce c Hce). reflexivity.
  Qed.

  Lemma scaled_row_ev : forall row c,
      NoDup V -> List.length x = List.length V ->
      scaled_pattern row V None = Some c ->
      map ev row = map (fun t => (Q2R c * t)%R) x.
  Proof.
    intros row c Hnd Hlen H.
    destruct (scaled_pattern_ev row V None c H) as [_ Hmap].
    rewrite Hmap.
    transitivity (map (fun t => (Q2R c * t)%R) (map (env_of V x) V)).
    - rewrite map_map. reflexivity.
    - rewrite (map_env_of_self V x Hnd Hlen). reflexivity.
  Qed.

  (* JGeneral: entrywise compilation *)
  Lemma build_row_ev : forall row cs,
      NoDup V -> Forall (fun t => wf t = true) row ->
      all_some (map (build V) row) = Some cs ->
      map (Compile.run x penv) cs = map ev row.
  Proof.
    intros row cs Hnd Hwf H. apply all_some_map_inv in H.
    symmetry. apply Forall2_map_eq.
    eapply Forall2_impl_l; [| exact Hwf | exact H].
    intros t c Ht Hb. simpl in Ht. symmetry.
    apply build_correct_gen; [apply wf_cwf; exact Ht | exact Hnd | exact Hb].
  Qed.

  Lemma general_path_ev : forall jac m,
      NoDup V -> Forall (Forall (fun t => wf t = true)) jac ->
      general_path V jac = Some m ->
      map (map (Compile.run x penv)) m = map (map ev) jac.
  Proof.
    intros jac m Hnd Hwf H. unfold general_path in H. apply all_some_map_inv in H.
    symmetry. apply Forall2_map_eq.
    eapply Forall2_impl_l; [| exact Hwf | exact H].
    intros row cs Hrow Hb. simpl in Hrow. symmetry.
    apply build_row_ev; assumption.
  Qed.

  Lemma general_path_total : forall jac,
      Forall (Forall (fun t => incl (vars t) V)) jac ->
      exists m, general_path V jac = Some m.
  Proof.
    intros jac Hv. unfold general_path. apply all_some_map_total.
    eapply Forall_impl; [|exact Hv].
    intros row Hrow. simpl in Hrow. apply all_some_map_total.
    eapply Forall_impl; [|exact Hrow].
    intros t Ht. simpl in Ht. apply build_total_gen. exact Ht.
  Qed.

  (* whichever path is selected, running it gives the values of the symbolic Jacobian *)
  Lemma select_path_sound : forall pow_tbl un_tbl jac,
      NoDup V -> List.length x = List.length V ->
      Forall (Forall (fun t => wf t = true)) jac ->
      Forall (Forall (fun t => incl (vars t) V)) jac ->
      run_jac x penv pow_tbl un_tbl (select_path V jac) = Some (map (map ev) jac).
  Proof.
    intros pow_tbl un_tbl jac Hnd Hlen Hwf Hv. unfold select_path.
    destruct (const_matrix jac) as [m|] eqn:Ec.
    - simpl. rewrite (const_matrix_ev jac m Ec). reflexivity.
    - destruct (match jac with
                | [row] => if Nat.eqb (List.length row) (List.length V)
                           then scaled_pattern row V None else None
                | _ => None end) as [c|] eqn:Es.
      + destruct jac as [|row [|row2 jac']]; try discriminate Es.
        destruct (Nat.eqb (List.length row) (List.length V)); [|discriminate Es].
        simpl. rewrite (scaled_row_ev row c Hnd Hlen Es). reflexivity.
      + destruct (general_path_total jac Hv) as [m Hm]. rewrite Hm.
        simpl. rewrite (general_path_ev jac m Hnd Hwf Hm). reflexivity.
  Qed.
End Paths.

Section CompileJacSound.
  Variables ln2c ln10c : Q.
  Variable es : list expr.
  Variable V : list string.
  Variable x : list R.
  Variable penv : string -> R.
  Variables pow_tbl un_tbl : list centry.

  Hypothesis Hwf : Forall (fun e => wf e = true) es.
  Hypothesis HV : NoDup V.
  Hypothesis Hlen : List.length x = List.length V.
  Hypothesis Hvars : forall e, In e es -> incl (vars e) V.
  (* provided by AutodiffProofs (grad_wf) / by the syntactic shape of grad *)
  Hypothesis grad_wf_ok :
    forall e v, In e es -> In v V -> wf (grad ln2c ln10c v e) = true.
  Hypothesis grad_vars_ok :
    forall e v, In e es -> In v V -> incl (vars (grad ln2c ln10c v e)) V.

  Lemma compute_jacobian_wf :
    Forall (Forall (fun t => wf t = true)) (compute_jacobian ln2c ln10c es V).
  Proof.
    unfold compute_jacobian. apply Forall_map_intro. intros e He.
    rewrite Forall_forall in Hwf.
    destruct (jac_row V e) as [row|] eqn:Erow.
    - eapply jac_row_wf; [apply Hwf; exact He | exact Erow].
    - apply Forall_map_intro. intros v Hv. apply grad_wf_ok; assumption.
  Qed.

  Lemma compute_jacobian_vars :
    Forall (Forall (fun t => incl (vars t) V)) (compute_jacobian ln2c ln10c es V).
  Proof.
    unfold compute_jacobian. apply Forall_map_intro. intros e He.
    destruct (jac_row V e) as [row|] eqn:Erow.
    - eapply jac_row_vars; [apply Hvars; exact He | exact Erow].
    - apply Forall_map_intro. intros v Hv. apply grad_vars_ok; assumption.
  Qed.

  Lemma compile_jacobian_sound_sec :
    not_vector_path es = true ->
    exists M,
      run_jac x penv pow_tbl un_tbl (compile_jacobian ln2c ln10c es V) = Some M /\
      M = map (fun e => map (fun v => evalR (env_of V x) penv (grad ln2c ln10c v e)) V) es.
  Proof.
    intros Hnv. rewrite (compile_jacobian_select ln2c ln10c es V Hnv).
    eexists. split.
    - apply select_path_sound; try assumption.
      + apply compute_jacobian_wf.
      + apply compute_jacobian_vars.
    - apply compute_jacobian_sound_gen. exact Hwf.
  Qed.

  (* 4. whichever of JConst / JScaled / JGeneral is selected, the matrix is the
     one the general path (entrywise compilation, of the symbolic Jacobian with
     row shortcuts or of the plain gradients) returns *)
  Lemma compile_paths_agree_sec :
    not_vector_path es = true ->
    (exists m,
        general_path V (compute_jacobian ln2c ln10c es V) = Some m /\
        run_jac x penv pow_tbl un_tbl (compile_jacobian ln2c ln10c es V) =
        run_jac x penv pow_tbl un_tbl (JGeneral m)) /\
    (exists m',
        general_path V (map (fun e => map (fun v => grad ln2c ln10c v e) V) es) = Some m' /\
        run_jac x penv pow_tbl un_tbl (compile_jacobian ln2c ln10c es V) =
        run_jac x penv pow_tbl un_tbl (JGeneral m')).
  Proof.
    intros Hnv.
    destruct (compile_jacobian_sound_sec Hnv) as [M [HM HMeq]].
    split.
    - destruct (general_path_total V _ compute_jacobian_vars) as [m Hm].
      exists m. split; [exact Hm|].
      rewrite HM. simpl.
      rewrite (general_path_ev V x penv _ m HV compute_jacobian_wf Hm).
      rewrite HMeq. rewrite compute_jacobian_sound_gen by exact Hwf. reflexivity.
    - assert (Hv' : Forall (Forall (fun t => incl (vars t) V))
                           (map (fun e => map (fun v => grad ln2c ln10c v e) V) es)).
      { apply Forall_map_intro. intros e He. apply Forall_map_intro. intros v Hv.
        apply grad_vars_ok; assumption. }
      assert (Hw' : Forall (Forall (fun t => wf t = true))
                           (map (fun e => map (fun v => grad ln2c ln10c v e) V) es)).
      { apply Forall_map_intro. intros e He. apply Forall_map_intro. intros v Hv.
        apply grad_wf_ok; assumption. }
      destruct (general_path_total V _ Hv') as [m' Hm'].
      exists m'. split; [exact Hm'|].
      rewrite HM. simpl.
      rewrite (general_path_ev V x penv _ m' HV Hw' Hm').
      rewrite HMeq. rewrite map_map. f_equal.
      apply map_ext. intros e. rewrite map_map. reflexivity.
  Qed.
End CompileJacSound.

Theorem compile_jacobian_sound : forall ln2c ln10c es V x penv pow_tbl un_tbl,
    Forall (fun e => wf e = true) es ->
    Forall (fun e => dot_same_ok e = true) es ->
    NoDup V ->
    List.length x = List.length V ->
    (forall e, In e es -> incl (vars e) V) ->
    (forall e v, In e es -> In v V -> wf (grad ln2c ln10c v e) = true) ->
    (forall e v, In e es -> In v V -> incl (vars (grad ln2c ln10c v e)) V) ->
    not_vector_path es = true ->
    exists M,
      run_jac x penv pow_tbl un_tbl (compile_jacobian ln2c ln10c es V) = Some M /\
      M = map (fun e => map (fun v => evalR (env_of V x) penv (grad ln2c ln10c v e)) V) es.
Proof.
  intros ln2c ln10c es V x penv pow_tbl un_tbl Hwf _ HV Hlen Hvars Hgw Hgv Hnv.
  apply compile_jacobian_sound_sec; assumption.
Qed.

Theorem compile_paths_agree : forall ln2c ln10c es V x penv pow_tbl un_tbl,
    Forall (fun e => wf e = true) es ->
    Forall (fun e => dot_same_ok e = true) es ->
    NoDup V ->
    List.length x = List.length V ->
    (forall e, In e es -> incl (vars e) V) ->
    (forall e v, In e es -> In v V -> wf (grad ln2c ln10c v e) = true) ->
    (forall e v, In e es -> In v V -> incl (vars (grad ln2c ln10c v e)) V) ->
    not_vector_path es = true ->
    (exists m,
        general_path V (compute_jacobian ln2c ln10c es V) = Some m /\
        run_jac x penv pow_tbl un_tbl (compile_jacobian ln2c ln10c es V) =
        run_jac x penv pow_tbl un_tbl (JGeneral m)) /\
    (exists m',
        general_path V (map (fun e => map (fun v => grad ln2c ln10c v e) V) es) = Some m' /\
        run_jac x penv pow_tbl un_tbl (compile_jacobian ln2c ln10c es V) =
        run_jac x penv pow_tbl un_tbl (JGeneral m')).
Proof.
  intros ln2c ln10c es V x penv pow_tbl un_tbl Hwf _ HV Hlen Hvars Hgw Hgv Hnv.
  apply compile_paths_agree_sec; assumption.
Qed.

(* ------------------------------------------------------------------ *)
(** * compile_gradient: the general path *)

Lemma fold_rec_grad : forall ln2c ln10c v e,
    fold_rec expr (grad ln2c ln10c v) binary_grad (unary_grad ln2c ln10c) e =
    grad ln2c ln10c v e.
Proof.
  intros ln2c ln10c v.
  induction e as [ q | y | p | o l IHl r IHr | o a IHa | vid xs | cs k es
                 | kl dls kr drs | k es | k es | k es m | vid xs p | vid xs o
                 | es | isvar es | es ]; try reflexivity.
  - simpl. rewrite IHl, IHr. reflexivity.
  - simpl. rewrite IHa. reflexivity.
Qed.

(* the depth switch of gradient() is invisible: the explicit-stack traversal
   returns the tree the recursion returns, whatever the threshold *)
Theorem gradient_eq_grad : forall ln2c ln10c v th e,
    gradient ln2c ln10c v th e = grad ln2c ln10c v e.
Proof.
  intros ln2c ln10c v th e.
  assert (Hit : grad_iter ln2c ln10c v e = Some (grad ln2c ln10c v e)).
  { unfold grad_iter. rewrite fold_iter_correct, fold_rec_grad. reflexivity. }
  unfold gradient.
  destruct e; try reflexivity; rewrite Hit;
    match goal with |- (if ?b then _ else _) = _ => destruct b; reflexivity end.
Qed.

Theorem compile_gradient_sound : forall ln2c ln10c e V x penv pow_tbl un_tbl,
    NoDup V ->
    List.length x = List.length V ->
    (forall v, In v V -> wf (grad ln2c ln10c v e) = true) ->
    (forall v, In v V -> incl (vars (grad ln2c ln10c v e)) V) ->
    not_vector_path [e] = true ->
    exists row,
      compile_gradient ln2c ln10c e V = JGeneral [row] /\
      run_jac x penv pow_tbl un_tbl (compile_gradient ln2c ln10c e V) =
      Some [map (fun v => evalR (env_of V x) penv (gradient ln2c ln10c v 400 e)) V] /\
      run_jac x penv pow_tbl un_tbl (compile_gradient ln2c ln10c e V) =
      Some [map (fun v => evalR (env_of V x) penv (grad ln2c ln10c v e)) V].
Proof.
  intros ln2c ln10c e V x penv pow_tbl un_tbl HV Hlen Hgw Hgv Hnv.
  assert (Hcg : compile_gradient ln2c ln10c e V =
                match all_some (map (build V) (map (fun v => grad ln2c ln10c v e) V)) with
                | Some row => JGeneral [row]
                | None => JError
                end).
  { rewrite map_map.
    rewrite (map_ext (fun v => build V (grad ln2c ln10c v e))
                     (fun v => build V (gradient ln2c ln10c v 400 e)))
      by (intros v; rewrite gradient_eq_grad; reflexivity).
    destruct e; try reflexivity; discriminate Hnv. }
  assert (Hw : Forall (fun t => wf t = true) (map (fun v => grad ln2c ln10c v e) V)).
  { apply Forall_map_intro. exact Hgw. }
  destruct (all_some_map_total (build V) (map (fun v => grad ln2c ln10c v e) V)) as [row Hrow].
  { apply Forall_map_intro. intros v Hv. apply build_total_gen. apply Hgv. exact Hv. }
  exists row. rewrite Hcg, Hrow.
  split; [reflexivity|].
  simpl. rewrite (build_row_ev V x penv _ row HV Hw Hrow). rewrite map_map.
  split; [|reflexivity].
  do 2 f_equal. apply map_ext. intros v. rewrite gradient_eq_grad. reflexivity.
Qed.

(* ------------------------------------------------------------------ *)
(** * 5. non-vacuity *)

Open Scope string_scope.

(* (a) a linear row, variables permuted and a spare one: constant path *)
Example ex_const_path : forall ln2c ln10c,
    compile_jacobian ln2c ln10c
                     [LinComb [1%Q; 2%Q] (KVar 1) [Var "a"; Var "b"]] ["b"; "a"; "z"] =
    JConst [[2%Q; 1%Q; 0%Q]].
Proof. intros ln2c ln10c. vm_compute. reflexivity. Qed.

(* (b) a vector dotted with itself: uniformly scaled path *)
Example ex_scaled_path : forall ln2c ln10c,
    compile_jacobian ln2c ln10c
                     [Dot (KVar 1) [Var "a"; Var "b"] (KVar 1) [Var "a"; Var "b"]] ["a"; "b"] =
    JScaled 2%Q.
Proof. intros ln2c ln10c. vm_compute. reflexivity. Qed.

(* (c) product of two overlapping slices x[0:2] . x[1:3] of one vector *)
Definition ex_overlap : expr :=
  Dot (KVar 1) [Var "x0"; Var "x1"] (KVar 2) [Var "x1"; Var "x2"].

Example ex_overlap_row : forall ln2c ln10c,
    compute_jacobian ln2c ln10c [ex_overlap] ["x0"; "x1"; "x2"] =
    [[Var "x1"; Bin Add (Var "x0") (Var "x2"); Var "x1"]].
Proof. intros ln2c ln10c. vm_compute. reflexivity. Qed.

Example ex_overlap_general : forall ln2c ln10c,
    compile_jacobian ln2c ln10c [ex_overlap] ["x0"; "x1"; "x2"] =
    JGeneral [[CIdx 1; CBin Add (CIdx 0) (CIdx 2); CIdx 1]].
Proof. intros ln2c ln10c. vm_compute. reflexivity. Qed.

Example ex_overlap_run : forall ln2c ln10c (a b c : R) penv pow_tbl un_tbl,
    run_jac [a; b; c] penv pow_tbl un_tbl
            (compile_jacobian ln2c ln10c [ex_overlap] ["x0"; "x1"; "x2"]) =
    Some [[b; (a + c)%R; b]].
Proof.
  intros ln2c ln10c a b c penv pow_tbl un_tbl. rewrite ex_overlap_general. reflexivity.
Qed.

(* the general-path tree for the same row: same values, different association *)
Example ex_overlap_grad : forall ln2c ln10c,
    map (fun v => grad ln2c ln10c v ex_overlap) ["x0"; "x1"; "x2"] =
    [Var "x1"; Bin Add (Var "x0") (Var "x2"); Var "x1"].
Proof. intros ln2c ln10c. vm_compute. reflexivity. Qed.

(* the hypotheses of compile_jacobian_sound are satisfiable on (c) *)
Example ex_overlap_sound : forall ln2c ln10c (a b c : R) penv pow_tbl un_tbl,
    exists M,
      run_jac [a; b; c] penv pow_tbl un_tbl
              (compile_jacobian ln2c ln10c [ex_overlap] ["x0"; "x1"; "x2"]) = Some M /\
      M = map (fun e => map (fun v => evalR (env_of ["x0"; "x1"; "x2"] [a; b; c]) penv
                                            (grad ln2c ln10c v e)) ["x0"; "x1"; "x2"])
              [ex_overlap].
Proof.
  intros ln2c ln10c a b c penv pow_tbl un_tbl.
  apply compile_jacobian_sound.
  - repeat constructor.
  - repeat constructor.
  - repeat constructor; simpl; intuition discriminate.
  - reflexivity.
  - intros e [He|[]]. subst e. intros y Hy. simpl in Hy. simpl. tauto.
  - intros e v [He|[]] Hv. subst e.
    simpl in Hv. destruct Hv as [Hv|[Hv|[Hv|[]]]]; subst v; reflexivity.
  - intros e v [He|[]] Hv. subst e.
    simpl in Hv. destruct Hv as [Hv|[Hv|[Hv|[]]]]; subst v;
      intros y Hy; vm_compute in Hy; simpl; tauto.
  - reflexivity.
Qed.

(* ------------------------------------------------------------------ *)
(** * Counter-examples: the hypotheses that cannot be dropped *)

(* [wf] (distinct names in a VectorVariable): with a repeated name the row takes
   the last coefficient, the gradient rule the first *)
Example wf_needed_lincomb :
  let e := LinComb [1%Q; 2%Q] (KVar 1) [Var "a"; Var "a"] in
  wf e = false /\
  jac_row ["a"] e = Some [Const 2%Q] /\
  (forall ln2c ln10c, grad ln2c ln10c "a" e = Const 1%Q) /\
  (forall ln2c ln10c rho penv,
      map (evalR rho penv) [Const 2%Q] <>
      map (fun v => evalR rho penv (grad ln2c ln10c v e)) ["a"]).
Proof.
  cbv zeta. split; [reflexivity|]. split; [vm_compute; reflexivity|].
  split; [intros; reflexivity|].
  intros ln2c ln10c rho penv H. simpl in H. inversion H as [H1].
  rewrite Q2R_2_, Q2R_1_ in H1. lra.
Qed.

(* [NoDup V]: the scaled path multiplies x positionally, the general path
   reads the LAST index of a repeated name *)
Example nodup_needed_scaled : forall ln2c ln10c penv pow_tbl un_tbl,
    let es := [Dot (KVar 1) [Var "a"] (KVar 1) [Var "a"]] in
    let V := ["a"; "a"] in
    compile_jacobian ln2c ln10c es V = JScaled 2%Q /\
    general_path V (compute_jacobian ln2c ln10c es V) =
    Some [[CBin Mul (CConst 2%Q) (CIdx 1); CBin Mul (CConst 2%Q) (CIdx 1)]] /\
    run_jac [1%R; 5%R] penv pow_tbl un_tbl (JScaled 2%Q) <>
    run_jac [1%R; 5%R] penv pow_tbl un_tbl
            (JGeneral [[CBin Mul (CConst 2%Q) (CIdx 1); CBin Mul (CConst 2%Q) (CIdx 1)]]).
Proof.
  intros ln2c ln10c penv pow_tbl un_tbl. cbv zeta.
  split; [vm_compute; reflexivity|]. split; [vm_compute; reflexivity|].
  intros H. simpl in H. unfold xat in H. simpl in H.
  injection H as H1. rewrite Q2R_2_ in H1. lra.
Qed.

Transparent jac_row.

Print Assumptions jac_row_sound.
Print Assumptions jac_row_sound_gen.
Print Assumptions compute_jacobian_sound.
Print Assumptions compile_jacobian_sound.
Print Assumptions compile_paths_agree.
Print Assumptions compile_gradient_sound.
Print Assumptions gradient_eq_grad.
