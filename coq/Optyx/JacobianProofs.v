(* JacobianProofs.v — property C03: the compiled gradient / Jacobian returns the
   matrix whose (i,j) entry is the partial derivative of expression i w.r.t.
   variable j, for every ordered variable list (any permutation, any superset);
   the specialised shortcuts (per-node Jacobian rows, constant rows, uniformly
   scaled rows, products of overlapping slices of one vector) return exactly
   what the general path returns.

   "General path value" = [evalR rho penv (grad ln2c ln10c v e)]; that this is
   the true partial derivative at regular points is AutodiffProofs.grad_correct
   (not used here: this file does not depend on AutodiffProofs).

   Findings about the hypotheses:
   - [jac_row_sound] does NOT need [dot_same_ok]: for a product of a vector
     with itself the shortcut row and the registered gradient rule are the same
     tree ([jac_row_sound_gen] is the statement without it; the hypothesis is
     what makes that common answer the true derivative, in grad_correct).
   - [wf e] IS needed ([wf_needed_lincomb]): with a repeated name in a
     LinearCombination the row takes the LAST coefficient, the gradient rule
     the FIRST (and the true derivative is their sum).  The API cannot build
     such a vector (VectorVariable elements have distinct names).
   - no domain / regularity hypothesis is needed: all the equalities hold as
     equalities of real numbers at every point.
   - [NoDup V] IS needed for the paths to agree ([nodup_needed_scaled]): the
     scaled fast path multiplies x positionally, the general path reads the
     LAST index of a repeated name. *)
From Coq Require Import String List Arith Bool QArith ZArith Reals Qreals Lia Lra.
From Optyx Require Import Syntax Occ SemR Machine Autodiff Compile ArrTerm Jacobian
     ExprInd MachineProofs CompileProofs.
Import ListNotations.
Close Scope Q_scope.
Close Scope R_scope.
Open Scope nat_scope.

(* ------------------------------------------------------------------ *)
(** * Side predicates *)

(* in every product of a VectorVariable with an operand carrying the SAME
   object id, the two element lists are the same (equal ids = same Python
   object, the harness numbers objects by identity) *)
Fixpoint dot_same_ok (e : expr) : bool :=
  match e with
  | Const _ | Var _ | Param _ | VSum _ _ | VPowSum _ _ _ | VUnSum _ _ _ => true
  | Bin _ l r => dot_same_ok l && dot_same_ok r
  | Un _ a => dot_same_ok a
  | LinComb _ _ es | L2n _ es | L1n _ es | QForm _ es _ | VExprSum es | MSum _ es
  | Frob es => forallb dot_same_ok es
  | Dot kl ls kr rs =>
      match kl, kr with
      | KVar i, KVar j => if N.eqb i j then list_eqb expr_eqb ls rs else true
      | _, _ => true
      end && forallb dot_same_ok ls && forallb dot_same_ok rs
  end.

(* compile_jacobian does not take one of its two vectorised paths *)
Definition not_vector_path (es : list expr) : bool :=
  match es with
  | [VPowSum _ _ _] => false
  | [VUnSum _ _ _] => false
  | _ => true
  end.

(* ------------------------------------------------------------------ *)
(** * Generic list lemmas *)

Lemma sumR_app' : forall l1 l2, sumR (l1 ++ l2) = (sumR l1 + sumR l2)%R.
Proof.
  induction l1 as [|a l1 IH]; intros l2; simpl.
  - lra.
  - rewrite IH. lra.
Qed.

Lemma forallb_Forall' : forall {A} (p : A -> bool) (l : list A),
    forallb p l = true -> Forall (fun a => p a = true) l.
Proof.
  intros A p l H. apply Forall_forall. intros a Ha.
  rewrite forallb_forall in H. apply H. exact Ha.
Qed.

Lemma all_some_map_inv : forall {A B} (f : A -> option B) (l : list A) (r : list B),
    all_some (map f l) = Some r -> Forall2 (fun a b => f a = Some b) l r.
Proof.
  intros A B f. induction l as [|a l IH]; intros r H; simpl in H.
  - inversion H. constructor.
  - destruct (f a) as [b|] eqn:Ea; [|discriminate].
    destruct (all_some (map f l)) as [r'|] eqn:Er; [|discriminate].
    inversion H; subst. constructor; [exact Ea | apply IH; reflexivity].
Qed.

Lemma all_some_map_total : forall {A B} (f : A -> option B) (l : list A),
    Forall (fun a => exists b, f a = Some b) l -> exists r, all_some (map f l) = Some r.
Proof.
  intros A B f. induction l as [|a l IH]; intros H.
  - exists []. reflexivity.
  - inversion H as [|a' l' [b Hb] Hl]; subst.
    destruct (IH Hl) as [r Hr]. exists (b :: r). simpl. rewrite Hb, Hr. reflexivity.
Qed.

Lemma Forall2_map_eq : forall {A B C} (g : A -> C) (h : B -> C) (l : list A) (r : list B),
    Forall2 (fun a b => g a = h b) l r -> map g l = map h r.
Proof.
  intros A B C g h l r H. induction H as [|a b l r Hab Hlr IH]; simpl.
  - reflexivity.
  - rewrite Hab, IH. reflexivity.
Qed.

Lemma Forall2_impl_l : forall {A B} (P : A -> Prop) (R1 R2 : A -> B -> Prop) (l : list A) (r : list B),
    (forall a b, P a -> R1 a b -> R2 a b) ->
    Forall P l -> Forall2 R1 l r -> Forall2 R2 l r.
Proof.
  intros A B P R1 R2 l r Himp HP H. induction H as [|a b l r Hab Hlr IH].
  - constructor.
  - inversion HP; subst. constructor; [apply Himp; assumption | apply IH; assumption].
Qed.

Lemma Forall_map_intro : forall {A B} (P : B -> Prop) (f : A -> B) (l : list A),
    (forall a, In a l -> P (f a)) -> Forall P (map f l).
Proof.
  intros A B P f l H. apply Forall_forall. intros b Hb.
  apply in_map_iff in Hb. destruct Hb as [a [Hab Ha]]. subst. apply H. exact Ha.
Qed.

(* ------------------------------------------------------------------ *)
(** * Evaluation of the simplifiers (local copies; AutodiffProofs not used) *)

Lemma Q2R_0_ : Q2R 0 = 0%R.
Proof. unfold Q2R. simpl. lra. Qed.
Lemma Q2R_1_ : Q2R 1 = 1%R.
Proof. unfold Q2R. simpl. lra. Qed.
Lemma Q2R_2_ : Q2R 2 = 2%R.
Proof. unfold Q2R. simpl. lra. Qed.

Lemma Q2R_of_nat : forall n, Q2R (inject_Z (Z.of_nat n)) = INR n.
Proof.
  intros n. unfold Q2R. simpl. rewrite INR_IZR_INZ. lra.
Qed.

Section Ev.
  Variables rho penv : env.
  Notation ev := (evalR rho penv).

  Lemma ev_c0 : ev c0 = 0%R.
  Proof. exact Q2R_0_. Qed.
  Lemma ev_c1 : ev c1 = 1%R.
  Proof. exact Q2R_1_. Qed.

  Lemma is_zero_ev : forall e, is_zero e = true -> ev e = 0%R.
  Proof.
    intros e H. destruct e; simpl in H; try discriminate.
    apply Qeq_bool_iff in H. simpl. rewrite (Qeq_eqR _ _ H). exact Q2R_0_.
  Qed.

  Lemma is_one_ev : forall e, is_one e = true -> ev e = 1%R.
  Proof.
    intros e H. destruct e; simpl in H; try discriminate.
    apply Qeq_bool_iff in H. simpl. rewrite (Qeq_eqR _ _ H). exact Q2R_1_.
  Qed.

  Lemma ev_Add : forall a b, ev (Bin Add a b) = (ev a + ev b)%R.
  Proof. reflexivity. Qed.
  Lemma ev_Mul : forall a b, ev (Bin Mul a b) = (ev a * ev b)%R.
  Proof. reflexivity. Qed.

  Lemma s_add_ev : forall a b, ev (s_add a b) = (ev a + ev b)%R.
  Proof.
    intros a b. unfold s_add.
    destruct (is_zero a) eqn:Ha.
    - rewrite (is_zero_ev a Ha). lra.
    - destruct (is_zero b) eqn:Hb.
      + rewrite (is_zero_ev b Hb). lra.
      + apply ev_Add.
  Qed.

  Lemma s_mul_ev : forall a b, ev (s_mul a b) = (ev a * ev b)%R.
  Proof.
    intros a b. unfold s_mul.
    destruct (is_zero a) eqn:Ha.
    - simpl. rewrite (is_zero_ev a Ha), Q2R_0_. lra.
    - destruct (is_zero b) eqn:Hb.
      + simpl. rewrite (is_zero_ev b Hb), Q2R_0_. lra.
      + simpl. destruct (is_one a) eqn:Ha1.
        * rewrite (is_one_ev a Ha1). lra.
        * destruct (is_one b) eqn:Hb1.
          -- rewrite (is_one_ev b Hb1). lra.
          -- apply ev_Mul.
  Qed.

  Lemma scale_l_ev : forall c e, ev (scale_l c e) = (Q2R c * ev e)%R.
  Proof.
    intros c e. destruct e; try reflexivity.
    simpl. apply Q2R_mult.
  Qed.

  Lemma scale_r_ev : forall c e, ev (scale_r c e) = (Q2R c * ev e)%R.
  Proof.
    intros c e. destruct e; try (simpl; lra).
    simpl. apply Q2R_mult.
  Qed.

  Lemma fold_add_ev : forall r t,
      ev (fold_left (fun acc x => Bin Add acc x) r t) = (ev t + sumR (map ev r))%R.
  Proof.
    induction r as [|a r IH]; intros t; simpl.
    - lra.
    - rewrite IH. rewrite ev_Add. lra.
  Qed.

  Lemma join_add_ev : forall ts, ev (join_add ts) = sumR (map ev ts).
  Proof.
    intros [|t r]; simpl.
    - exact Q2R_0_.
    - apply fold_add_ev.
  Qed.

  Lemma sum_grad_ev : forall des acc,
      ev (sum_grad des acc) = (ev acc + sumR (map ev des))%R.
  Proof.
    induction des as [|d des IH]; intros acc; simpl.
    - lra.
    - rewrite IH, s_add_ev. lra.
  Qed.

  Lemma dot_vv_grad_ev : forall v ls rs acc,
      ev (dot_vv_grad v ls rs acc) = (ev acc + sumR (map ev (dot_contribs v ls rs)))%R.
  Proof.
    intros v. induction ls as [|l ls IH]; intros rs acc.
    - simpl. lra.
    - destruct rs as [|r rs].
      + simpl. lra.
      + simpl dot_vv_grad. simpl dot_contribs. rewrite IH.
        rewrite !map_app, !sumR_app'.
        assert (H1 : forall a,
                   ev (match l with
                       | Var x => if String.eqb x v then s_add a r else a
                       | _ => a end) =
                   (ev a + sumR (map ev (match l with
                                         | Var x => if String.eqb x v then [r] else []
                                         | _ => [] end)))%R).
        { intros a. destruct l; try (simpl; lra).
          destruct (String.eqb x v); simpl; rewrite ?s_add_ev; lra. }
        assert (H2 : forall a,
                   ev (match r with
                       | Var y => if String.eqb y v then s_add a l else a
                       | _ => a end) =
                   (ev a + sumR (map ev (match r with
                                         | Var y => if String.eqb y v then [l] else []
                                         | _ => [] end)))%R).
        { intros a. destruct r; try (simpl; lra).
          destruct (String.eqb x v); simpl; rewrite ?s_add_ev; lra. }
        rewrite H2, H1. lra.
  Qed.
End Ev.

(* ------------------------------------------------------------------ *)
(** * LinearCombination: last coefficient = first coefficient for distinct names *)

Lemma last_coeff_notin : forall v es,
    existsb (String.eqb v) (vec_names es) = false ->
    forall cs found, last_coeff v cs es found = found.
Proof.
  intros v. induction es as [|a es IH]; intros Hn cs found.
  - destruct cs; reflexivity.
  - destruct cs as [|c cs]; [reflexivity|].
    destruct a; simpl in *; try (apply IH; exact Hn).
    apply orb_false_iff in Hn. destruct Hn as [Hx Hn].
    rewrite String.eqb_sym, Hx. apply IH. exact Hn.
Qed.

Lemma last_first_coeff : forall v es,
    NoDupb (vec_names es) = true ->
    forall cs, Const (last_coeff v cs es 0%Q) = first_coeff v cs es.
Proof.
  intros v. induction es as [|a es IH]; intros Hnd cs.
  - destruct cs; reflexivity.
  - destruct cs as [|c cs]; [reflexivity|].
    destruct a; simpl in *; try (apply IH; exact Hnd).
    apply andb_true_iff in Hnd. destruct Hnd as [Hx Hnd].
    destruct (String.eqb_spec x v) as [Heq|Hne].
    + subst x. rewrite last_coeff_notin; [reflexivity|].
      apply negb_true_iff in Hx. exact Hx.
    + apply IH. exact Hnd.
Qed.

(* ------------------------------------------------------------------ *)
(** * MatrixSum over a MatrixVariable *)

Lemma msum_count_ev : forall ln2c ln10c rho penv v es,
    forallb is_var es = true ->
    sumR (map (evalR rho penv) (map (grad ln2c ln10c v) es)) = INR (count_name v es).
Proof.
  intros ln2c ln10c rho penv v. induction es as [|a es IH]; intros Hv.
  - reflexivity.
  - simpl in Hv. apply andb_true_iff in Hv. destruct Hv as [Ha Hv].
    destruct a; simpl in Ha; try discriminate.
    unfold count_name in *. simpl map. simpl filter.
    destruct (String.eqb x v).
    + simpl length. rewrite S_INR. simpl sumR. rewrite (IH Hv). rewrite Q2R_1_. lra.
    + simpl sumR. rewrite (IH Hv). rewrite Q2R_0_. lra.
Qed.

(* ------------------------------------------------------------------ *)
(** * Shape of [jac_row] on a BinaryOp *)

Section RowShape.
  Variable V : list string.

  Lemma const_dec : forall e : expr, {c | e = Const c} + {forall c, e <> Const c}.
  Proof.
    intros e. destruct e; try (right; intros c Hc; discriminate Hc).
    left. exists q. reflexivity.
  Qed.

  (* [jac_row]'s nested matches elaborate to a very large term: each of the
     following is ONE unfolding, checked by conversion *)
  Lemma jac_row_Add : forall l r,
      jac_row V (Bin Add l r) =
      match r with
      | Const _ => jac_row V l
      | _ => match l with Const _ => jac_row V r | _ => None end
      end.
  Proof. intros l r. reflexivity. Qed.

  Lemma jac_row_Sub : forall l r,
      jac_row V (Bin Sub l r) = match r with Const _ => jac_row V l | _ => None end.
  Proof. intros l r. reflexivity. Qed.

  Lemma jac_row_Div : forall l r, jac_row V (Bin Div l r) = None.
  Proof. intros l r. reflexivity. Qed.

  Lemma jac_row_Pow : forall l r, jac_row V (Bin Pow l r) = None.
  Proof. intros l r. reflexivity. Qed.

  Lemma jac_row_Mul : forall l r,
      jac_row V (Bin Mul l r) =
      let right_case :=
          match r with
          | Const c => match jac_row V l with
                       | Some row => Some (map (scale_r c) row) | None => None end
          | _ => None
          end in
      match l with
      | Const c => match jac_row V r with
                   | Some row => Some (map (scale_l c) row)
                   | None => right_case
                   end
      | _ => right_case
      end.
  Proof. intros l r. reflexivity. Qed.

  Lemma jac_row_Const : forall c, jac_row V (Const c) = None.
  Proof. intros c. reflexivity. Qed.

  Opaque jac_row.

  Lemma jac_row_Mul_c : forall c r,
      jac_row V (Bin Mul (Const c) r) =
      match jac_row V r with Some row => Some (map (scale_l c) row) | None => None end.
  Proof.
    intros c r. rewrite jac_row_Mul. cbv zeta.
    destruct (jac_row V r); [reflexivity|].
    rewrite jac_row_Const. destruct r; reflexivity.
  Qed.

  Lemma jac_row_Mul_nc : forall l r,
      (forall c, l <> Const c) ->
      jac_row V (Bin Mul l r) =
      match r with
      | Const c => match jac_row V l with
                   | Some row => Some (map (scale_r c) row) | None => None end
      | _ => None
      end.
  Proof.
    intros l r Hl. rewrite jac_row_Mul. cbv zeta.
    destruct l; try reflexivity.
    exfalso. eapply Hl. reflexivity.
  Qed.

  Lemma jac_row_Bin_inv : forall o l r row,
      jac_row V (Bin o l r) = Some row ->
      (exists c, (o = Add \/ o = Sub) /\ r = Const c /\ jac_row V l = Some row) \/
      (exists c, o = Add /\ l = Const c /\ jac_row V r = Some row) \/
      (exists c row', o = Mul /\ l = Const c /\ jac_row V r = Some row' /\
                      row = map (scale_l c) row') \/
      (exists c row', o = Mul /\ r = Const c /\ jac_row V l = Some row' /\
                      row = map (scale_r c) row').
  Proof.
    intros o l r row H.
    destruct o.
    - (* Add *)
      rewrite jac_row_Add in H.
      destruct (const_dec r) as [[c Hc]|Hr].
      + subst r. left. exists c. auto.
      + destruct (const_dec l) as [[c Hc]|Hl].
        * subst l. right; left. exists c.
          split; [reflexivity|]. split; [reflexivity|].
          destruct r; try exact H; exfalso; eapply Hr; reflexivity.
        * exfalso.
          destruct r; try (eapply Hr; reflexivity);
            destruct l; try discriminate H; eapply Hl; reflexivity.
    - (* Sub *)
      rewrite jac_row_Sub in H.
      destruct r; try discriminate H.
      left. exists q. auto.
    - (* Mul *)
      destruct (const_dec l) as [[c Hc]|Hl].
      + subst l. rewrite jac_row_Mul_c in H.
        destruct (jac_row V r) as [row'|] eqn:Er; [|discriminate H].
        right; right; left. exists c, row'. inversion H. auto.
      + rewrite (jac_row_Mul_nc l r Hl) in H.
        destruct r; try discriminate H.
        destruct (jac_row V l) as [row'|] eqn:El; [|discriminate H].
        right; right; right. exists q, row'. inversion H. auto.
    - rewrite jac_row_Div in H. discriminate H.
    - rewrite jac_row_Pow in H. discriminate H.
  Qed.
End RowShape.
