(* NumpySpec.v — REFERENCE semantics for property C11: what NumPy computes on the
   VALUES.  Vectors are [list R], matrices [list (list R)] (row-major).  Nothing here
   mentions optyx trees; the only import from the model is [slice_indices], which is
   pure index arithmetic (Python's slice(a,b,c).indices(n)) and is validated on its
   own in VecMatProofs.v (part 5).

   Pow.  [bopR Pow a b] is [Rpower a b] (exp (b ln a)); a power with a LITERAL
   exponent q denotes [powQ a q] (repeated multiplication when q is an integer).  The
   element-wise operations below are stated with [bopR]; the literal-exponent powers
   x ** q and x ** array get their own operations [np_pow_scalar] / [np_pow_consts]. *)
From Coq Require Import Reals QArith Qreals List ZArith.
From Optyx Require Import Syntax SemR VecMat.
Import ListNotations.
Close Scope Q_scope.
Open Scope R_scope.

Definition vec := list R.
Definition mat := list (list R).

(* ---- indexing, fancy selection, slicing ---- *)
Definition np_index (l : vec) (k : nat) : R := nth k l 0.             (* l[k] *)
Definition np_select (l : vec) (idx : list nat) : vec := map (np_index l) idx.   (* l[[i0,i1,..]] *)
Definition np_slice (l : vec) (a b c : option Z) : option vec :=      (* l[a:b:c] *)
  option_map (np_select l) (slice_indices (length l) a b c).

Definition np_index2 (A : mat) (i j : nat) : R := nth j (nth i A []) 0.          (* A[i,j] *)
Definition np_row (A : mat) (i : nat) : vec := nth i A [].                       (* A[i,:] *)
Definition np_col (A : mat) (j : nat) : vec := map (fun r => np_index r j) A.    (* A[:,j] *)
Definition np_select_rows (A : mat) (idx : list nat) : mat := map (np_row A) idx. (* A[idx,:] *)
Definition np_submatrix (A : mat) (ri ci : list nat) : mat :=                    (* A[ri][:,ci] *)
  map (fun r => np_select r ci) (np_select_rows A ri).

(* ---- element-wise arithmetic, with scalar broadcasting ---- *)
Definition np_ew (o : bop) (a b : vec) : vec :=                       (* a o b, same length *)
  map (fun p => bopR o (fst p) (snd p)) (combine a b).
Definition np_ew_scalar_r (o : bop) (a : vec) (c : R) : vec := map (fun x => bopR o x c) a.  (* a o c *)
Definition np_ew_scalar_l (o : bop) (c : R) (a : vec) : vec := map (fun x => bopR o c x) a.  (* c o a *)
Definition np_pow_scalar (a : vec) (q : Q) : vec := map (fun x => powQ x q) a.               (* a ** q *)
Definition np_pow_consts (a : vec) (qs : list Q) : vec :=                                    (* a ** [q..] *)
  map (fun p => powQ (fst p) (snd p)) (combine a qs).
Definition np_neg (a : vec) : vec := map Ropp a.

(* ---- reductions and products ---- *)
Definition np_sum (a : vec) : R := sumR a.
Definition np_dot (a b : vec) : R := dotR a b.
Definition np_matvec (A : mat) (x : vec) : vec := map (fun row => np_dot row x) A.   (* A @ x *)
Definition np_norm2 (a : vec) : R := sqrt (np_sum (map Rsqr a)).
Definition np_norm1 (a : vec) : R := np_sum (map Rabs a).
Definition np_quad (x : vec) (Q : mat) : R := np_dot x (np_matvec Q x).             (* x @ Q @ x *)

(* ---- matrices ---- *)
Definition np_ncols (A : mat) : nat := match A with r :: _ => length r | [] => 0%nat end.

(* transpose, by recursion on the rows: the first row is consed onto the transpose of the rest *)
Fixpoint np_transpose (A : mat) : mat :=
  match A with
  | [] => []
  | r :: A' =>
      match A' with
      | [] => map (fun x => [x]) r
      | _ => map (fun p => fst p :: snd p) (combine r (np_transpose A'))
      end
  end.

Definition np_diag (A : mat) : vec := map (fun i => np_index2 A i i) (seq 0 (length A)).
Definition np_trace (A : mat) : R := np_sum (np_diag A).

Definition np_mew (o : bop) (A B : mat) : mat :=                        (* A o B, same shape *)
  map (fun p => np_ew o (fst p) (snd p)) (combine A B).
Definition np_mew_scalar_r (o : bop) (A : mat) (c : R) : mat := map (fun r => np_ew_scalar_r o r c) A.
Definition np_mew_scalar_l (o : bop) (c : R) (A : mat) : mat := map (fun r => np_ew_scalar_l o c r) A.
Definition np_mpow_scalar (A : mat) (q : Q) : mat := map (fun r => np_pow_scalar r q) A.
Definition np_mpow_consts (A : mat) (Qs : list (list Q)) : mat :=
  map (fun p => np_pow_consts (fst p) (snd p)) (combine A Qs).
Definition np_mneg (A : mat) : mat := map np_neg A.
Definition np_msum (A : mat) : R := np_sum (map np_sum A).             (* sum of the row sums *)
Definition np_frob (A : mat) : R := sqrt (np_msum (map (map Rsqr) A)).

(* the shape of a (possibly ragged) nested list: its row lengths *)
Definition shape {A} (M : list (list A)) : list nat := map (@length A) M.
Definition rectangular {A} (M : list (list A)) (n : nat) : Prop := Forall (fun r => length r = n) M.
