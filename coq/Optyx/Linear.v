(* Linear.v — linear-coefficient and constant-term extraction, LP data.
   Mirrors src/optyx/analysis.py: _constant_value, _extract_coefficient_impl,
   _extract_constant_impl, extract_all_linear_coefficients (with its O(1)
   shortcuts and _try_extract_fast_binop), LinearProgramExtractor
   (extract_objective / extract_constraints / extract), and the sign handling of
   solvers/lp_solver.py.  Arithmetic is over Q; the harness only feeds
   coefficients for which the implementation's float arithmetic is exact.
   No proofs here (see LinearProofs.v). *)
From Coq Require Import String List Arith Bool QArith ZArith.
From Optyx Require Import Syntax Degree.
Import ListNotations.
Open Scope Q_scope.

Definition Qpow_nat (a : Q) (n : nat) : Q := Qpower a (Z.of_nat n).

(* Python's int(float): truncation towards zero *)
Definition Qtrunc (q : Q) : Z := Z.quot (Qnum q) (Zpos (Qden q)).

Fixpoint dotQ (a b : list Q) : Q :=
  match a, b with
  | x :: a', y :: b' => x * y + dotQ a' b'
  | _, _ => 0
  end.

(* _constant_value: value of a variable-free (degree-0) sub-expression *)
Fixpoint const_value (e : expr) {struct e} : option Q :=
  match e with
  | Const q => Some q
  | Un Neg a => match const_value a with Some x => Some (- x) | None => None end
  | Bin Pow l (Const k) =>
      match natural_power k with
      | Some O => Some 1
      | Some n => match const_value l with Some b => Some (Qpow_nat b n) | None => None end
      | None => None
      end
  | Bin Div l (Const d) => match const_value l with Some a => Some (a / d) | None => None end
  | Bin Add l r => match const_value l, const_value r with
                   | Some a, Some b => Some (a + b) | _, _ => None end
  | Bin Sub l r => match const_value l, const_value r with
                   | Some a, Some b => Some (a - b) | _, _ => None end
  | Bin Mul l r => match const_value l, const_value r with
                   | Some a, Some b => Some (a * b) | _, _ => None end
  | VPowSum _ xs p =>
      match natural_power p with
      | Some O => Some (inject_Z (Z.of_nat (List.length xs)))
      | _ => None
      end
  | LinComb cs KExpr es =>
      (fix go (cs : list Q) (es : list expr) {struct es} : option Q :=
         match cs, es with
         | c :: cs', e :: es' =>
             match const_value e, go cs' es' with
             | Some x, Some t => Some (c * x + t)
             | _, _ => None
             end
         | _, _ => Some 0
         end) cs es
  | _ => None
  end.

Definition mem_name (x : string) (xs : list string) : bool := existsb (String.eqb x) xs.

Section Coef.
  Variable v : string.

  (* coefficient of the first element named v in a VectorVariable *)
  Fixpoint first_coeffQ (cs : list Q) (es : list expr) : Q :=
    match cs, es with
    | c :: cs', Var x :: es' => if String.eqb x v then c else first_coeffQ cs' es'
    | _ :: cs', _ :: es' => first_coeffQ cs' es'
    | _, _ => 0
    end.

  (* _extract_coefficient_impl *)
  Fixpoint coef (e : expr) {struct e} : Q :=
    match e with
    | Const _ => 0
    | Var x => if String.eqb x v then 1 else 0
    | LinComb cs k es =>
        match k with
        | KVar _ => first_coeffQ cs es
        | KExpr => dotQ cs (map coef es)
        end
    | VSum _ xs => if mem_name v xs then 1 else 0
    | VPowSum _ xs p =>
        match natural_power p with
        | Some 1%nat => if mem_name v xs then 1 else 0
        | _ => 0
        end
    | Bin Add l r => coef l + coef r
    | Bin Sub l r => coef l - coef r
    | Bin Mul l r =>
        match const_value l with
        | Some c => c * coef r
        | None => match const_value r with
                  | Some c => coef l * c
                  | None => 0
                  end
        end
    | Bin Div l r => match r with Const d => coef l / d | _ => 0 end
    | Bin Pow l r =>
        match r with
        | Const k => if Z.eqb (Qtrunc k) 1 then coef l else 0   (* int(value) == 1 *)
        | _ => 0
        end
    | Un Neg a => - coef a
    | _ => 0
    end.
End Coef.

(* _extract_constant_impl *)
Fixpoint cterm (e : expr) {struct e} : Q :=
  match e with
  | Const q => q
  | Var _ => 0
  | LinComb cs KExpr es => dotQ cs (map cterm es)
  | LinComb _ (KVar _) _ => 0
  | VSum _ _ => 0
  | VPowSum _ xs p =>
      match natural_power p with
      | Some O => inject_Z (Z.of_nat (List.length xs))
      | _ => 0
      end
  | Bin Add l r => cterm l + cterm r
  | Bin Sub l r => cterm l - cterm r
  | Bin Mul l r =>
      match const_value l with
      | Some c => c * cterm r
      | None => match const_value r with
                | Some c => cterm l * c
                | None => 0
                end
      end
  | Bin Div l r => match r with Const d => cterm l / d | _ => 0 end
  | Bin Pow l r =>
      match r with
      | Const k =>
          if Z.eqb (Qtrunc k) 0 then 1
          else if Z.eqb (Qtrunc k) 1 then cterm l
          else match const_value (Bin Pow l r) with Some c => c | None => 0 end
      | _ => 0
      end
  | Un Neg a => - cterm a
  | _ => 0
  end.

(* the general path of extract_all_linear_coefficients: one coefficient per
   variable of the problem's ordered list *)
Definition all_coefs (V : list string) (e : expr) : list Q := map (fun v => coef v e) V.

(* guard shared by the O(1) shortcuts: the vector has as many elements as the
   problem has variables and its first element is the problem's first variable *)
Definition covers (V : list string) (xs : list string) : bool :=
  Nat.eqb (List.length xs) (List.length V) &&
  match xs, V with x :: _, v :: _ => String.eqb x v | _, _ => false end.

Definition ones (n : nat) : list Q := repeat 1 n.

(* the shortcut families of extract_all_linear_coefficients / _try_extract_fast_binop *)
Definition fast_path (V : list string) (e : expr) : option (list Q) :=
  let n := List.length V in
  match e with
  | VSum _ xs => if covers V xs then Some (ones n) else None
  | LinComb cs (KVar _) es => if covers V (vec_names es) then Some cs else None
  | Bin o l r =>
      match o with
      | Add | Sub =>
          match l, r with
          | VSum _ xs, Const _ => if covers V xs then Some (ones n) else None
          | LinComb cs (KVar _) es, Const _ => if covers V (vec_names es) then Some cs else None
          | _, _ => None
          end
      | Mul =>
          match l, r with
          | Const c, VSum _ xs => if covers V xs then Some (repeat c n) else None
          | VSum _ xs, Const c => if covers V xs then Some (repeat c n) else None
          | _, _ => None
          end
      | _ => None
      end
  | _ => None
  end.

Definition extract_all (V : list string) (e : expr) : list Q :=
  match fast_path V e with Some r => r | None => all_coefs V e end.

(* ---- LP data ---- *)
Inductive sense := Le | Ge | Eq.
Definition sense_eqb (a b : sense) : bool :=
  match a, b with Le, Le | Ge, Ge | Eq, Eq => true | _, _ => false end.

Record lpdata := {
  lp_c : list Q; lp_c0 : Q; lp_max : bool;
  lp_Aub : list (list Q); lp_bub : list Q;
  lp_Aeq : list (list Q); lp_beq : list Q;
  lp_names : list string
}.

Definition negv (r : list Q) : list Q := map Qopp r.

(* extract_constraints: rows in constraint order, split by kind *)
Fixpoint ub_rows (V : list string) (cons : list (expr * sense)) : list (list Q * Q) :=
  match cons with
  | [] => []
  | (e, Le) :: r => (extract_all V e, - cterm e) :: ub_rows V r
  | (e, Ge) :: r => (negv (extract_all V e), - (- cterm e)) :: ub_rows V r
  | (_, Eq) :: r => ub_rows V r
  end.

Fixpoint eq_rows (V : list string) (cons : list (expr * sense)) : list (list Q * Q) :=
  match cons with
  | [] => []
  | (e, Eq) :: r => (extract_all V e, - cterm e) :: eq_rows V r
  | _ :: r => eq_rows V r
  end.

Definition extract_lp (V : list string) (obj : expr) (maximize : bool)
           (cons : list (expr * sense)) : lpdata :=
  {| lp_c := extract_all V obj; lp_c0 := cterm obj; lp_max := maximize;
     lp_Aub := map fst (ub_rows V cons); lp_bub := map snd (ub_rows V cons);
     lp_Aeq := map fst (eq_rows V cons); lp_beq := map snd (eq_rows V cons);
     lp_names := V |}.

(* what solve_lp hands to linprog as c, and how it reports the objective *)
Definition linprog_c (d : lpdata) : list Q := if lp_max d then negv (lp_c d) else lp_c d.
Definition reported_objective (d : lpdata) (fun_ : Q) : Q :=
  (if lp_max d then - fun_ else fun_) + lp_c0 d.

(* a problem is handed to the LP path when everything is linear *)
Definition is_linear_problem (obj : expr) (cons : list (expr * sense)) : bool :=
  is_linear obj && forallb (fun c => is_linear (fst c)) cons.
