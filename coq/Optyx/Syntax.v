(* Syntax.v — the expression trees the optyx public API can build.

   Mirrors: src/optyx/core/expressions.py (Constant, Variable, BinaryOp, UnaryOp),
            src/optyx/core/parameters.py (Parameter),
            src/optyx/core/vectors.py (VectorSum, LinearCombination, DotProduct,
              L2Norm, L1Norm, VectorPowerSum, VectorUnarySum, VectorExpressionSum),
            src/optyx/core/matrices.py (QuadraticForm, MatrixSum, FrobeniusNorm).

   Variables and parameters are identified by NAME: optyx's Variable.__eq__ and
   __hash__ are by name, and every algorithm compares `var.name == wrt.name`.
   Constants are rationals: every Python float is a dyadic rational, so the
   harness serialises them exactly.  A vector operand is a list of element
   expressions with a kind tag: [KVar vid] for a VectorVariable (elements are
   [Var] nodes; [vid] is the Python object's identity as numbered by the
   harness, needed because the code tests `left is right`), [KExpr] for a
   VectorExpression.  No proofs in this file. *)
From Coq Require Import QArith String List Bool ZArith.
Import ListNotations.
Close Scope Q_scope.
Open Scope nat_scope.
Open Scope string_scope.

Inductive uop :=
  Neg | Abs | Sin | Cos | Tan | Exp | Log | Log2 | Log10 | Sqrt
| Tanh | Sinh | Cosh | Asin | Acos | Atan | Asinh | Acosh | Atanh.

Inductive bop := Add | Sub | Mul | Div | Pow.

Inductive vkind := KVar (vid : N) | KExpr.

Inductive expr : Type :=
| Const (q : Q)
| Var (x : string)
| Param (p : string)
| Bin (o : bop) (l r : expr)
| Un (o : uop) (a : expr)
| VSum (vid : N) (xs : list string)                         (* VectorSum over a VectorVariable *)
| LinComb (cs : list Q) (k : vkind) (es : list expr)        (* LinearCombination *)
| Dot (kl : vkind) (ls : list expr) (kr : vkind) (rs : list expr)
| L2n (k : vkind) (es : list expr)
| L1n (k : vkind) (es : list expr)
| QForm (k : vkind) (es : list expr) (m : list (list Q))
| VPowSum (vid : N) (xs : list string) (p : Q)
| VUnSum (vid : N) (xs : list string) (o : uop)
| VExprSum (es : list expr)
| MSum (isvar : bool) (es : list expr)     (* entries, row-major, shared entries repeated *)
| Frob (es : list expr).                   (* entries of a MatrixVariable, row-major *)

(* ---- decidable equalities (boolean) ---- *)
Definition uop_eqb (a b : uop) : bool :=
  match a, b with
  | Neg,Neg | Abs,Abs | Sin,Sin | Cos,Cos | Tan,Tan | Exp,Exp | Log,Log
  | Log2,Log2 | Log10,Log10 | Sqrt,Sqrt | Tanh,Tanh | Sinh,Sinh | Cosh,Cosh
  | Asin,Asin | Acos,Acos | Atan,Atan | Asinh,Asinh | Acosh,Acosh | Atanh,Atanh => true
  | _, _ => false
  end.

Definition bop_eqb (a b : bop) : bool :=
  match a, b with
  | Add,Add | Sub,Sub | Mul,Mul | Div,Div | Pow,Pow => true
  | _, _ => false
  end.

Definition vkind_eqb (a b : vkind) : bool :=
  match a, b with
  | KVar i, KVar j => N.eqb i j
  | KExpr, KExpr => true
  | _, _ => false
  end.

Fixpoint list_eqb {A} (eqb : A -> A -> bool) (l1 l2 : list A) : bool :=
  match l1, l2 with
  | [], [] => true
  | a :: l1', b :: l2' => eqb a b && list_eqb eqb l1' l2'
  | _, _ => false
  end.

(* structural equality of trees; constants compared as rationals (Qeq) *)
Fixpoint expr_eqb (a b : expr) {struct a} : bool :=
  let fix leq (l1 l2 : list expr) {struct l1} : bool :=
    match l1, l2 with
    | [], [] => true
    | x :: l1', y :: l2' => expr_eqb x y && leq l1' l2'
    | _, _ => false
    end in
  match a, b with
  | Const p, Const q => Qeq_bool p q
  | Var x, Var y => String.eqb x y
  | Param x, Param y => String.eqb x y
  | Bin o l r, Bin o' l' r' => bop_eqb o o' && expr_eqb l l' && expr_eqb r r'
  | Un o x, Un o' x' => uop_eqb o o' && expr_eqb x x'
  | VSum i xs, VSum j ys => N.eqb i j && list_eqb String.eqb xs ys
  | LinComb cs k es, LinComb cs' k' es' =>
      list_eqb Qeq_bool cs cs' && vkind_eqb k k' && leq es es'
  | Dot kl ls kr rs, Dot kl' ls' kr' rs' =>
      vkind_eqb kl kl' && leq ls ls' && vkind_eqb kr kr' && leq rs rs'
  | L2n k es, L2n k' es' => vkind_eqb k k' && leq es es'
  | L1n k es, L1n k' es' => vkind_eqb k k' && leq es es'
  | QForm k es m, QForm k' es' m' =>
      vkind_eqb k k' && leq es es' && list_eqb (list_eqb Qeq_bool) m m'
  | VPowSum i xs p, VPowSum j ys q => N.eqb i j && list_eqb String.eqb xs ys && Qeq_bool p q
  | VUnSum i xs o, VUnSum j ys o' => N.eqb i j && list_eqb String.eqb xs ys && uop_eqb o o'
  | VExprSum es, VExprSum es' => leq es es'
  | MSum v es, MSum v' es' => Bool.eqb v v' && leq es es'
  | Frob es, Frob es' => leq es es'
  | _, _ => false
  end.

(* ---- small helpers shared by the algorithm models ---- *)
Definition is_const (e : expr) : bool := match e with Const _ => true | _ => false end.
Definition is_var (e : expr) : bool := match e with Var _ => true | _ => false end.
Definition var_name (e : expr) : option string := match e with Var x => Some x | _ => None end.

(* Python: isinstance(e, Constant) and e.value == 0.0 / 1.0 *)
Definition is_zero (e : expr) : bool := match e with Const q => Qeq_bool q 0%Q | _ => false end.
Definition is_one (e : expr) : bool := match e with Const q => Qeq_bool q 1%Q | _ => false end.

(* rational q is an integer / its integer value (floor) *)
Definition Qis_int (q : Q) : bool := Z.eqb (Z.modulo (Qnum q) (Zpos (Qden q))) 0.
Definition Qfloor' (q : Q) : Z := Z.div (Qnum q) (Zpos (Qden q)).

(* a ** k with k a natural number: Python's _natural_power (analysis.py) *)
Definition natural_power (q : Q) : option nat :=
  if Qis_int q && Z.leb 0 (Qfloor' q) then Some (Z.to_nat (Qfloor' q)) else None.

(* number of nodes: fuel for the explicit-stack machines *)
Fixpoint size (e : expr) : nat :=
  match e with
  | Const _ | Var _ | Param _ => 1
  | Bin _ l r => S (size l + size r)
  | Un _ a => S (size a)
  | VSum _ xs => S (length xs)
  | LinComb _ _ es | L2n _ es | L1n _ es | QForm _ es _ | VExprSum es | MSum _ es | Frob es =>
      S (fold_right (fun e n => size e + n) 0 es)
  | Dot _ ls _ rs =>
      S (fold_right (fun e n => size e + n) 0 ls + fold_right (fun e n => size e + n) 0 rs)
  | VPowSum _ xs _ | VUnSum _ xs _ => S (length xs)
  end.

(* ---- well-formedness: what the API guarantees about trees it builds ---- *)
Fixpoint NoDupb (l : list string) : bool :=
  match l with
  | [] => true
  | x :: r => negb (existsb (String.eqb x) r) && NoDupb r
  end.

Definition vec_names (es : list expr) : list string :=
  flat_map (fun e => match e with Var x => [x] | _ => [] end) es.

(* a VectorVariable operand holds distinct Var nodes *)
Definition kind_wf (k : vkind) (es : list expr) : bool :=
  match k with
  | KVar _ => forallb is_var es && NoDupb (vec_names es)
  | KExpr => true
  end.

Fixpoint wf (e : expr) : bool :=
  match e with
  | Const _ | Var _ | Param _ => true
  | Bin _ l r => wf l && wf r
  | Un _ a => wf a
  | VSum _ xs => NoDupb xs && negb (Nat.eqb (length xs) 0)
  | LinComb cs k es => Nat.eqb (length cs) (length es) && kind_wf k es && forallb wf es
  | Dot kl ls kr rs =>
      Nat.eqb (length ls) (length rs) && kind_wf kl ls && kind_wf kr rs
      && forallb wf ls && forallb wf rs
  | L2n k es | L1n k es => kind_wf k es && forallb wf es
  | QForm k es m =>
      kind_wf k es && forallb wf es && Nat.eqb (length m) (length es)
      && forallb (fun row => Nat.eqb (length row) (length es)) m
  | VPowSum _ xs _ => NoDupb xs
  | VUnSum _ xs _ => NoDupb xs
  | VExprSum es => forallb wf es
  | MSum isvar es => (if isvar then forallb is_var es else true) && forallb wf es
  | Frob es => forallb is_var es && forallb wf es
  end.
