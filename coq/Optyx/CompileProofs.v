(* CompileProofs.v — property C01: the compiled callable returns the mathematical
   value of the formula, for every ordering / superset of its variables, every
   point and every parameter valuation at call time; the deep-tree (explicit
   stack) and the recursive builders produce the same closure; every expression
   kind compiles.

   Findings about the hypotheses (all proved below):
   - [NoDup V] IS needed ([nodup_needed]): the index map keeps the LAST
     occurrence of a name, [env_of] the FIRST.
   - [wf e] can be weakened to [cwf e] ("a VectorVariable operand holds Var
     nodes"); some such hypothesis IS needed ([wf_needed]).
   - [length x = length V] is NOT needed ([build_correct_gen]).
   - [wf e] is NOT needed for totality ([build_total_gen]). *)
From Coq Require Import String List Arith Bool QArith ZArith Reals Qreals Lia Lra.
From Optyx Require Import Syntax Occ SemR Machine Compile ExprInd MachineProofs.
Import ListNotations.
Close Scope Q_scope.
Close Scope R_scope.
Open Scope nat_scope.

Local Notation crun := Compile.run.

(* ------------------------------------------------------------------ *)
(* index / indices                                                     *)
(* ------------------------------------------------------------------ *)

Lemma index_from_spec : forall V x i found,
    index_from V x i found =
    match index_from V x 0 None with Some j => Some (i + j) | None => found end.
Proof.
  induction V as [|v V' IHV]; intros x i found.
  - reflexivity.
  - simpl.
    rewrite (IHV x (S i) (if String.eqb v x then Some i else found)).
    rewrite (IHV x 1 (if String.eqb v x then Some 0 else None)).
    destruct (index_from V' x 0 None) as [j|]; destruct (String.eqb v x); simpl;
      try reflexivity; f_equal; lia.
Qed.

Lemma index_nil : forall x, index [] x = None.
Proof. reflexivity. Qed.

Lemma index_cons : forall v V x,
    index (v :: V) x =
    match index V x with
    | Some j => Some (S j)
    | None => if String.eqb v x then Some 0 else None
    end.
Proof.
  intros v V x. unfold index. simpl. rewrite index_from_spec. reflexivity.
Qed.

Lemma index_notin : forall V x, ~ In x V -> index V x = None.
Proof.
  induction V as [|v V' IHV]; intros x Hnin.
  - reflexivity.
  - rewrite index_cons. rewrite IHV.
    + destruct (String.eqb_spec v x) as [Heq|Hne].
      * exfalso. apply Hnin. left. exact Heq.
      * reflexivity.
    + intros Hin. apply Hnin. right. exact Hin.
Qed.

Lemma index_in : forall V x, In x V -> exists i, index V x = Some i.
Proof.
  induction V as [|v V' IHV]; intros x Hin.
  - destruct Hin.
  - rewrite index_cons. destruct (index V' x) as [j|] eqn:Ej.
    + eexists. reflexivity.
    + destruct (String.eqb_spec v x) as [Heq|Hne].
      * eexists. reflexivity.
      * destruct Hin as [Heq|Hin'].
        -- contradiction.
        -- destruct (IHV x Hin') as [i Hi]. rewrite Hi in Ej. discriminate.
Qed.

Lemma index_some_in : forall V x i, index V x = Some i -> In x V.
Proof.
  induction V as [|v V' IHV]; intros x i Hi.
  - discriminate.
  - rewrite index_cons in Hi. destruct (index V' x) as [j|] eqn:Ej.
    + right. eapply IHV. exact Ej.
    + destruct (String.eqb_spec v x) as [Heq|Hne].
      * left. exact Heq.
      * discriminate.
Qed.

Lemma index_lt : forall V x i, index V x = Some i -> i < List.length V.
Proof.
  induction V as [|v V' IHV]; intros x i Hi.
  - discriminate.
  - rewrite index_cons in Hi. simpl. destruct (index V' x) as [j|] eqn:Ej.
    + inversion Hi; subst. apply IHV in Ej. lia.
    + destruct (String.eqb v x); [|discriminate]. inversion Hi; subst. lia.
Qed.

(* with distinct names the last occurrence is the first: x[index] is the
   variable's value.  No length hypothesis: both sides default to 0. *)
Lemma index_env_of : forall V, NoDup V -> forall (x : list R) v i,
    index V v = Some i -> nth i x 0%R = env_of V x v.
Proof.
  induction V as [|v0 V' IHV]; intros Hnd x v i Hi.
  - discriminate.
  - rewrite index_cons in Hi.
    inversion Hnd as [|v0' V0 Hnotin Hnd']; subst.
    destruct x as [|t x'].
    + simpl. destruct i; reflexivity.
    + simpl. rewrite String.eqb_sym.
      destruct (String.eqb_spec v0 v) as [Heq|Hne].
      * subst. rewrite (index_notin _ _ Hnotin) in Hi. inversion Hi. reflexivity.
      * destruct (index V' v) as [j|] eqn:Ej; [|discriminate].
        inversion Hi; subst. simpl. apply IHV; assumption.
Qed.

Lemma indices_nil : forall V, indices V [] = Some [].
Proof. reflexivity. Qed.

Lemma indices_cons : forall V a xs,
    indices V (a :: xs) =
    match index V a with
    | Some i => match indices V xs with Some r => Some (i :: r) | None => None end
    | None => None
    end.
Proof. reflexivity. Qed.

Lemma indices_correct : forall V (x : list R), NoDup V -> forall xs idx,
    indices V xs = Some idx -> map (xat x) idx = map (env_of V x) xs.
Proof.
  intros V x Hnd. induction xs as [|a xs IHxs]; intros idx Hidx.
  - rewrite indices_nil in Hidx. inversion Hidx. reflexivity.
  - rewrite indices_cons in Hidx.
    destruct (index V a) as [i|] eqn:Ei; [|discriminate].
    destruct (indices V xs) as [r|] eqn:Er; [|discriminate].
    inversion Hidx; subst. simpl. f_equal.
    + unfold xat. apply index_env_of; assumption.
    + apply IHxs. reflexivity.
Qed.

Lemma indices_total : forall V xs, incl xs V -> exists idx, indices V xs = Some idx.
Proof.
  intros V. induction xs as [|a xs IHxs]; intros Hincl.
  - eexists. reflexivity.
  - rewrite indices_cons.
    destruct (index_in V a) as [i Hi]; [apply Hincl; left; reflexivity|].
    rewrite Hi.
    destruct IHxs as [r Hr]; [intros y Hy; apply Hincl; right; exact Hy|].
    rewrite Hr. eexists. reflexivity.
Qed.

Lemma indices_some_incl : forall V xs idx, indices V xs = Some idx -> incl xs V.
Proof.
  intros V. induction xs as [|a xs IHxs]; intros idx Hidx y Hy.
  - destruct Hy.
  - rewrite indices_cons in Hidx.
    destruct (index V a) as [i|] eqn:Ei; [|discriminate].
    destruct (indices V xs) as [r|] eqn:Er; [|discriminate].
    destruct Hy as [Heq|Hy'].
    + subst. eapply index_some_in. exact Ei.
    + eapply IHxs; [reflexivity|exact Hy'].
Qed.

(* ------------------------------------------------------------------ *)
(* unfolding lemmas for run / evalR / build                            *)
(* ------------------------------------------------------------------ *)

(* the local [vec] of [run] *)
Definition vecrun (x : list R) (penv : string -> R)
           (vi : option (list nat)) (vf : list clo) : list R :=
  match vi with Some idx => map (xat x) idx | None => map (crun x penv) vf end.

(* the local [bvec] of [build] *)
Definition bvec (V : list string) (k : vkind) (es : list expr)
  : option (option (list nat) * list clo) :=
  match k with
  | KVar _ => match indices V (vec_names es) with
              | Some idx => Some (Some idx, [])
              | None => None end
  | KExpr => match all_some (map (build V) es) with
             | Some fs => Some (None, fs)
             | None => None end
  end.

Section RunEqs.
  Variable x : list R.
  Variable penv : string -> R.
  Local Open Scope R_scope.

  Lemma run_CBin : forall o a b,
      crun x penv (CBin o a b) =
      match o, b with
      | Pow, CConst q => powQ (crun x penv a) q
      | _, _ => bopR o (crun x penv a) (crun x penv b)
      end.
  Proof. intros o a b. destruct o; destruct b; reflexivity. Qed.

  Lemma run_CBin_nc : forall o a b,
      (forall q, b <> CConst q) ->
      crun x penv (CBin o a b) = bopR o (crun x penv a) (crun x penv b).
  Proof.
    intros o a b Hnc. rewrite run_CBin.
    destruct o; try reflexivity.
    destruct b; try reflexivity.
    exfalso. eapply Hnc. reflexivity.
  Qed.

  Lemma run_CDotVec : forall li lf ri rf,
      crun x penv (CDotVec li lf ri rf) = dotR (vecrun x penv li lf) (vecrun x penv ri rf).
  Proof. reflexivity. Qed.

  Lemma run_CNorm2 : forall vi vf,
      crun x penv (CNorm2 vi vf) = sqrt (sumR (map Rsqr (vecrun x penv vi vf))).
  Proof. reflexivity. Qed.

  Lemma run_CNorm1 : forall vi vf,
      crun x penv (CNorm1 vi vf) = sumR (map Rabs (vecrun x penv vi vf)).
  Proof. reflexivity. Qed.

  Lemma run_CQForm : forall vi vf m,
      crun x penv (CQForm vi vf m) =
      dotR (vecrun x penv vi vf)
           (map (fun row => matvec_row row (vecrun x penv vi vf)) m).
  Proof. reflexivity. Qed.
End RunEqs.

Lemma evalR_Bin : forall rho penv o l r,
    evalR rho penv (Bin o l r) =
    match o, r with
    | Pow, Const q => powQ (evalR rho penv l) q
    | _, _ => bopR o (evalR rho penv l) (evalR rho penv r)
    end.
Proof. intros rho penv o l r. destruct o; destruct r; reflexivity. Qed.

Lemma evalR_Bin_nc : forall rho penv o l r,
    (forall q, r <> Const q) ->
    evalR rho penv (Bin o l r) = bopR o (evalR rho penv l) (evalR rho penv r).
Proof.
  intros rho penv o l r Hnc. rewrite evalR_Bin.
  destruct o; try reflexivity.
  destruct r; try reflexivity.
  exfalso. eapply Hnc. reflexivity.
Qed.

Lemma build_Dot : forall V kl ls kr rs,
    build V (Dot kl ls kr rs) =
    match bvec V kl ls, bvec V kr rs with
    | Some (li, lf), Some (ri, rf) => Some (CDotVec li lf ri rf)
    | _, _ => None
    end.
Proof. reflexivity. Qed.

Lemma build_L2n : forall V k es,
    build V (L2n k es) =
    match bvec V k es with Some (vi, vf) => Some (CNorm2 vi vf) | None => None end.
Proof. reflexivity. Qed.

Lemma build_L1n : forall V k es,
    build V (L1n k es) =
    match bvec V k es with Some (vi, vf) => Some (CNorm1 vi vf) | None => None end.
Proof. reflexivity. Qed.

Lemma build_QForm : forall V k es m,
    build V (QForm k es m) =
    match bvec V k es with Some (vi, vf) => Some (CQForm vi vf m) | None => None end.
Proof. reflexivity. Qed.

Lemma build_LinComb : forall V cs k es,
    build V (LinComb cs k es) =
    match k with
    | KVar _ => match indices V (vec_names es) with
                | Some idx => Some (CDotIdx cs idx) | None => None end
    | KExpr => match all_some (map (build V) es) with
               | Some fs => Some (CDotFns cs fs) | None => None end
    end.
Proof. reflexivity. Qed.

(* [build] yields a constant closure only for a Constant node, so the literal
   exponent special case of [run] fires exactly when that of [evalR] does *)
Lemma build_CConst_inv : forall V e q, build V e = Some (CConst q) -> e = Const q.
Proof.
  intros V e q H.
  destruct e; simpl in H; unfold build_bin, build_un in H;
    repeat (match type of H with
            | context [match ?X with _ => _ end] => destruct X
            end);
    try discriminate.
  inversion H. reflexivity.
Qed.

Lemma build_const_or_not : forall V r b,
    build V r = Some b ->
    (exists q, r = Const q /\ b = CConst q) \/
    ((forall q, r <> Const q) /\ (forall q, b <> CConst q)).
Proof.
  intros V r b Hb.
  destruct r as [ q | y | p | o l r' | o a | vid xs | cs k es
                | kl dls kr drs | k es | k es | k es m | vid xs p | vid xs o
                | es | isvar es | es ];
    try (right; split;
         [ intros q0; discriminate
         | intros q0 Heq; subst b; apply build_CConst_inv in Hb; discriminate ]).
  left. exists q. split; [reflexivity|]. simpl in Hb. inversion Hb. reflexivity.
Qed.

(* ------------------------------------------------------------------ *)
(* the part of [wf] that the compiler relies on                        *)
(* ------------------------------------------------------------------ *)

Definition kind_cwf (k : vkind) (es : list expr) : bool :=
  match k with KVar _ => forallb is_var es | KExpr => true end.

(* "a VectorVariable operand holds Var nodes", hereditarily *)
Fixpoint cwf (e : expr) : bool :=
  match e with
  | Const _ | Var _ | Param _ => true
  | Bin _ l r => cwf l && cwf r
  | Un _ a => cwf a
  | VSum _ _ | VPowSum _ _ _ | VUnSum _ _ _ => true
  | LinComb _ k es | L2n k es | L1n k es | QForm k es _ => kind_cwf k es && forallb cwf es
  | Dot kl ls kr rs => kind_cwf kl ls && kind_cwf kr rs && forallb cwf ls && forallb cwf rs
  | VExprSum es | MSum _ es | Frob es => forallb cwf es
  end.

Lemma kind_wf_cwf : forall k es, kind_wf k es = true -> kind_cwf k es = true.
Proof.
  intros k es H. destruct k as [vid|]; simpl in *.
  - apply andb_prop in H. destruct H as [H1 H2]. exact H1.
  - reflexivity.
Qed.

Lemma forallb_wf_cwf : forall es,
    Forall (fun e => wf e = true -> cwf e = true) es ->
    forallb wf es = true -> forallb cwf es = true.
Proof.
  induction es as [|a es IHes]; intros HF Hwf.
  - reflexivity.
  - simpl in *. apply andb_prop in Hwf. destruct Hwf as [Ha Hes].
    inversion HF as [|a' es' HPa HPes]; subst.
    rewrite (HPa Ha), (IHes HPes Hes). reflexivity.
Qed.

Ltac split_andb :=
  repeat match goal with
         | H : _ && _ = true |- _ =>
             let H1 := fresh H in let H2 := fresh H in
             apply andb_prop in H; destruct H as [H1 H2]
         end.

Lemma wf_cwf : forall e, wf e = true -> cwf e = true.
Proof.
  induction e as [ q | y | p | o l r IHl IHr | o a IHa | vid xs | cs k es IHes
                 | kl dls kr drs IHls IHrs | k es IHes | k es IHes | k es m IHes
                 | vid xs p | vid xs o | es IHes | isvar es IHes | es IHes ]
                  using expr_ind'; intros Hwf; simpl in *; try reflexivity;
    split_andb;
    repeat match goal with
           | H : kind_wf _ _ = true |- _ => apply kind_wf_cwf in H; rewrite H
           end;
    repeat match goal with
           | HF : Forall _ ?es, H : forallb wf ?es = true |- _ =>
               rewrite (forallb_wf_cwf es HF H); clear HF
           end;
    try reflexivity.
  - rewrite IHl, IHr by assumption. reflexivity.
  - apply IHa. assumption.
Qed.

(* a VectorVariable operand evaluates to the values of its names *)
Lemma map_evalR_vec_names : forall rho penv es,
    forallb is_var es = true ->
    map (evalR rho penv) es = map rho (vec_names es).
Proof.
  intros rho penv. induction es as [|a es IHes]; intros Hv.
  - reflexivity.
  - simpl in Hv. apply andb_prop in Hv. destruct Hv as [Ha Hes].
    destruct a; simpl in Ha; try discriminate.
    simpl. f_equal. apply IHes. exact Hes.
Qed.

Lemma vec_names_incl_vars : forall es, incl (vec_names es) (flat_map vars es).
Proof.
  induction es as [|a es IHes]; intros y Hy.
  - destruct Hy.
  - unfold vec_names in Hy. simpl in Hy. simpl.
    apply in_app_or in Hy. apply in_or_app. destruct Hy as [Hy|Hy].
    + left. destruct a; simpl in *; try contradiction. exact Hy.
    + right. apply IHes. exact Hy.
Qed.

Lemma vars_incl_vec_names : forall es,
    forallb is_var es = true -> incl (flat_map vars es) (vec_names es).
Proof.
  induction es as [|a es IHes]; intros Hv y Hy.
  - destruct Hy.
  - simpl in Hv. apply andb_prop in Hv. destruct Hv as [Ha Hes].
    unfold vec_names. simpl in *.
    apply in_app_or in Hy. apply in_or_app. destruct Hy as [Hy|Hy].
    + left. destruct a; simpl in *; try discriminate. exact Hy.
    + right. apply IHes; assumption.
Qed.

(* ------------------------------------------------------------------ *)
(* 1. correctness of the recursive builder                             *)
(* ------------------------------------------------------------------ *)

Section Correct.
  Variable V : list string.
  Variable x : list R.
  Variable penv : string -> R.
  Hypothesis HV : NoDup V.

  Local Notation rho := (env_of V x).

  Definition correct_at (e : expr) : Prop :=
    forall c, cwf e = true -> build V e = Some c ->
              crun x penv c = evalR rho penv e.

  Lemma all_some_build_correct : forall es fs,
      Forall correct_at es -> forallb cwf es = true ->
      all_some (map (build V) es) = Some fs ->
      map (crun x penv) fs = map (evalR rho penv) es.
  Proof.
    induction es as [|a es IHes]; intros fs HF Hwf Hall.
    - simpl in Hall. inversion Hall. reflexivity.
    - simpl in Hall, Hwf. apply andb_prop in Hwf. destruct Hwf as [Ha Hes].
      inversion HF as [|a' es' HPa HPes]; subst.
      destruct (build V a) as [ca|] eqn:Eca; [|discriminate].
      destruct (all_some (map (build V) es)) as [r|] eqn:Er; [|discriminate].
      inversion Hall; subst. simpl. f_equal.
      + apply HPa; assumption.
      + apply IHes; try assumption. reflexivity.
  Qed.

  Lemma bvec_correct : forall k es vi vf,
      Forall correct_at es -> kind_cwf k es = true -> forallb cwf es = true ->
      bvec V k es = Some (vi, vf) ->
      vecrun x penv vi vf = map (evalR rho penv) es.
  Proof.
    intros k es vi vf HF Hk Hwf Hb. destruct k as [vid|]; simpl in Hb, Hk.
    - destruct (indices V (vec_names es)) as [idx|] eqn:Eidx; [|discriminate].
      inversion Hb; subst. simpl.
      rewrite (indices_correct V x HV _ _ Eidx).
      symmetry. apply map_evalR_vec_names. exact Hk.
    - destruct (all_some (map (build V) es)) as [fs|] eqn:Efs; [|discriminate].
      inversion Hb; subst. simpl.
      apply all_some_build_correct; assumption.
  Qed.

  Lemma build_correct_all : forall e, correct_at e.
  Proof.
    induction e as [ q | y | p | o l r IHl IHr | o a IHa | vid xs | cs k es IHes
                   | kl dls kr drs IHls IHrs | k es IHes | k es IHes | k es m IHes
                   | vid xs p | vid xs o | es IHes | isvar es IHes | es IHes ]
                    using expr_ind'; intros c Hwf Hb.
    - (* Const *) simpl in Hb. inversion Hb. reflexivity.
    - (* Var *)
      simpl in Hb. destruct (index V y) as [i|] eqn:Ei; [|discriminate].
      inversion Hb; subst. simpl. unfold xat. apply index_env_of; assumption.
    - (* Param *) simpl in Hb. inversion Hb. reflexivity.
    - (* Bin *)
      simpl in Hb, Hwf. apply andb_prop in Hwf. destruct Hwf as [Hwl Hwr].
      unfold build_bin in Hb.
      destruct (build V l) as [ca|] eqn:Eca; [|discriminate].
      destruct (build V r) as [cb|] eqn:Ecb; [|discriminate].
      inversion Hb; subst.
      pose proof (IHl ca Hwl Eca) as Hl.
      pose proof (IHr cb Hwr Ecb) as Hr.
      destruct (build_const_or_not V r cb Ecb) as [[q [Hrq Hbq]]|[Hnr Hnb]].
      + subst. destruct o; simpl; rewrite Hl; reflexivity.
      + rewrite run_CBin_nc by assumption. rewrite evalR_Bin_nc by assumption.
        rewrite Hl, Hr. reflexivity.
    - (* Un *)
      simpl in Hb, Hwf. unfold build_un in Hb.
      destruct (build V a) as [ca|] eqn:Eca; [|discriminate].
      inversion Hb; subst. simpl. rewrite (IHa ca Hwf Eca). reflexivity.
    - (* VSum *)
      simpl in Hb. destruct (indices V xs) as [idx|] eqn:Eidx; [|discriminate].
      inversion Hb; subst. simpl.
      rewrite (indices_correct V x HV _ _ Eidx). reflexivity.
    - (* LinComb *)
      rewrite build_LinComb in Hb. simpl in Hwf.
      apply andb_prop in Hwf. destruct Hwf as [Hk Hes].
      destruct k as [kid|]; simpl in Hk.
      + destruct (indices V (vec_names es)) as [idx|] eqn:Eidx; [|discriminate].
        inversion Hb; subst. simpl.
        rewrite (indices_correct V x HV _ _ Eidx).
        rewrite (map_evalR_vec_names rho penv es Hk). reflexivity.
      + destruct (all_some (map (build V) es)) as [fs|] eqn:Efs; [|discriminate].
        inversion Hb; subst. simpl.
        rewrite (all_some_build_correct es fs IHes Hes Efs). reflexivity.
    - (* Dot *)
      rewrite build_Dot in Hb. simpl in Hwf. split_andb.
      destruct (bvec V kl dls) as [[li lf]|] eqn:El; [|discriminate].
      destruct (bvec V kr drs) as [[ri rf]|] eqn:Er; [|discriminate].
      inversion Hb; subst. rewrite run_CDotVec.
      rewrite (bvec_correct kl dls li lf) by assumption.
      rewrite (bvec_correct kr drs ri rf) by assumption.
      reflexivity.
    - (* L2n *)
      rewrite build_L2n in Hb. simpl in Hwf. split_andb.
      destruct (bvec V k es) as [[vi vf]|] eqn:Ev; [|discriminate].
      inversion Hb; subst. rewrite run_CNorm2.
      rewrite (bvec_correct k es vi vf) by assumption.
      simpl. rewrite map_map. reflexivity.
    - (* L1n *)
      rewrite build_L1n in Hb. simpl in Hwf. split_andb.
      destruct (bvec V k es) as [[vi vf]|] eqn:Ev; [|discriminate].
      inversion Hb; subst. rewrite run_CNorm1.
      rewrite (bvec_correct k es vi vf) by assumption.
      simpl. rewrite map_map. reflexivity.
    - (* QForm *)
      rewrite build_QForm in Hb. simpl in Hwf. split_andb.
      destruct (bvec V k es) as [[vi vf]|] eqn:Ev; [|discriminate].
      inversion Hb; subst. rewrite run_CQForm.
      rewrite (bvec_correct k es vi vf) by assumption.
      reflexivity.
    - (* VPowSum *)
      simpl in Hb. destruct (indices V xs) as [idx|] eqn:Eidx; [|discriminate].
      inversion Hb; subst. simpl.
      pose proof (indices_correct V x HV _ _ Eidx) as Hm.
      rewrite <- (map_map (xat x) (fun t => powQ t p) idx).
      rewrite <- (map_map rho (fun t => powQ t p) xs).
      rewrite Hm. reflexivity.
    - (* VUnSum *)
      simpl in Hb. destruct (indices V xs) as [idx|] eqn:Eidx; [|discriminate].
      inversion Hb; subst. simpl.
      pose proof (indices_correct V x HV _ _ Eidx) as Hm.
      rewrite <- (map_map (xat x) (fun t => uopR o t) idx).
      rewrite <- (map_map rho (fun t => uopR o t) xs).
      rewrite Hm. reflexivity.
    - (* VExprSum *)
      simpl in Hb, Hwf.
      destruct (all_some (map (build V) es)) as [fs|] eqn:Efs; [|discriminate].
      inversion Hb; subst. simpl.
      rewrite (all_some_build_correct es fs IHes Hwf Efs). reflexivity.
    - (* MSum *)
      simpl in Hb, Hwf.
      destruct (all_some (map (build V) es)) as [fs|] eqn:Efs; [|discriminate].
      inversion Hb; subst. simpl.
      rewrite (all_some_build_correct es fs IHes Hwf Efs). reflexivity.
    - (* Frob *)
      simpl in Hb, Hwf.
      destruct (all_some (map (build V) es)) as [fs|] eqn:Efs; [|discriminate].
      inversion Hb; subst. simpl.
      rewrite <- (map_map (crun x penv) Rsqr fs).
      rewrite (all_some_build_correct es fs IHes Hwf Efs).
      rewrite map_map. reflexivity.
  Qed.
End Correct.

(* strongest form: [cwf] instead of [wf], no length hypothesis *)
Theorem build_correct_gen : forall V e c x penv,
    cwf e = true -> NoDup V -> build V e = Some c ->
    crun x penv c = evalR (env_of V x) penv e.
Proof.
  intros V e c x penv Hwf HV Hb.
  exact (build_correct_all V x penv HV e c Hwf Hb).
Qed.

Theorem build_correct : forall V e c x penv,
    wf e = true -> NoDup V -> List.length x = List.length V ->
    build V e = Some c ->
    Compile.run x penv c = evalR (env_of V x) penv e.
Proof.
  intros V e c x penv Hwf HV Hlen Hb.
  apply build_correct_gen; try assumption. apply wf_cwf. exact Hwf.
Qed.

(* ------------------------------------------------------------------ *)
(* 2. every expression kind compiles (no KeyError) when its variables  *)
(*    are among the listed ones                                        *)
(* ------------------------------------------------------------------ *)

Lemma incl_app_l : forall (A : Type) (l1 l2 l : list A), incl (l1 ++ l2) l -> incl l1 l.
Proof. intros A l1 l2 l H y Hy. apply H. apply in_or_app. left. exact Hy. Qed.

Lemma incl_app_r : forall (A : Type) (l1 l2 l : list A), incl (l1 ++ l2) l -> incl l2 l.
Proof. intros A l1 l2 l H y Hy. apply H. apply in_or_app. right. exact Hy. Qed.

Section Total.
  Variable V : list string.

  Definition total_at (e : expr) : Prop :=
    incl (vars e) V -> exists c, build V e = Some c.

  Lemma all_some_build_total : forall es,
      Forall total_at es -> incl (flat_map vars es) V ->
      exists fs, all_some (map (build V) es) = Some fs.
  Proof.
    induction es as [|a es IHes]; intros HF Hincl.
    - eexists. reflexivity.
    - inversion HF as [|a' es' HPa HPes]; subst. simpl in Hincl.
      destruct (HPa (incl_app_l _ _ _ _ Hincl)) as [ca Hca].
      destruct (IHes HPes (incl_app_r _ _ _ _ Hincl)) as [fs Hfs].
      simpl. rewrite Hca, Hfs. eexists. reflexivity.
  Qed.

  Lemma bvec_total : forall k es,
      Forall total_at es -> incl (flat_map vars es) V ->
      exists p, bvec V k es = Some p.
  Proof.
    intros k es HF Hincl. destruct k as [vid|]; simpl.
    - destruct (indices_total V (vec_names es)) as [idx Hidx].
      + intros y Hy. apply Hincl. apply vec_names_incl_vars. exact Hy.
      + rewrite Hidx. eexists. reflexivity.
    - destruct (all_some_build_total es HF Hincl) as [fs Hfs].
      rewrite Hfs. eexists. reflexivity.
  Qed.

  Lemma build_total_all : forall e, total_at e.
  Proof.
    induction e as [ q | y | p | o l r IHl IHr | o a IHa | vid xs | cs k es IHes
                   | kl dls kr drs IHls IHrs | k es IHes | k es IHes | k es m IHes
                   | vid xs p | vid xs o | es IHes | isvar es IHes | es IHes ]
                    using expr_ind'; intros Hincl.
    - eexists. reflexivity.
    - simpl. destruct (index_in V y) as [i Hi].
      + apply Hincl. left. reflexivity.
      + rewrite Hi. eexists. reflexivity.
    - eexists. reflexivity.
    - simpl in Hincl.
      destruct (IHl (incl_app_l _ _ _ _ Hincl)) as [ca Hca].
      destruct (IHr (incl_app_r _ _ _ _ Hincl)) as [cb Hcb].
      simpl. rewrite Hca, Hcb. eexists. reflexivity.
    - simpl in Hincl. destruct (IHa Hincl) as [ca Hca].
      simpl. rewrite Hca. eexists. reflexivity.
    - simpl in Hincl. destruct (indices_total V xs Hincl) as [idx Hidx].
      simpl. rewrite Hidx. eexists. reflexivity.
    - simpl in Hincl. rewrite build_LinComb. destruct k as [kid|].
      + destruct (indices_total V (vec_names es)) as [idx Hidx].
        * intros y Hy. apply Hincl. apply vec_names_incl_vars. exact Hy.
        * rewrite Hidx. eexists. reflexivity.
      + destruct (all_some_build_total es IHes Hincl) as [fs Hfs].
        rewrite Hfs. eexists. reflexivity.
    - simpl in Hincl. rewrite build_Dot.
      destruct (bvec_total kl dls IHls (incl_app_l _ _ _ _ Hincl)) as [[li lf] Hl].
      destruct (bvec_total kr drs IHrs (incl_app_r _ _ _ _ Hincl)) as [[ri rf] Hr].
      rewrite Hl, Hr. eexists. reflexivity.
    - simpl in Hincl. rewrite build_L2n.
      destruct (bvec_total k es IHes Hincl) as [[vi vf] Hv].
      rewrite Hv. eexists. reflexivity.
    - simpl in Hincl. rewrite build_L1n.
      destruct (bvec_total k es IHes Hincl) as [[vi vf] Hv].
      rewrite Hv. eexists. reflexivity.
    - simpl in Hincl. rewrite build_QForm.
      destruct (bvec_total k es IHes Hincl) as [[vi vf] Hv].
      rewrite Hv. eexists. reflexivity.
    - simpl in Hincl. destruct (indices_total V xs Hincl) as [idx Hidx].
      simpl. rewrite Hidx. eexists. reflexivity.
    - simpl in Hincl. destruct (indices_total V xs Hincl) as [idx Hidx].
      simpl. rewrite Hidx. eexists. reflexivity.
    - simpl in Hincl. destruct (all_some_build_total es IHes Hincl) as [fs Hfs].
      simpl. rewrite Hfs. eexists. reflexivity.
    - simpl in Hincl. destruct (all_some_build_total es IHes Hincl) as [fs Hfs].
      simpl. rewrite Hfs. eexists. reflexivity.
    - simpl in Hincl. destruct (all_some_build_total es IHes Hincl) as [fs Hfs].
      simpl. rewrite Hfs. eexists. reflexivity.
  Qed.
End Total.

(* [wf] is not needed for totality *)
Theorem build_total_gen : forall V e, incl (vars e) V -> exists c, build V e = Some c.
Proof. intros V e Hincl. exact (build_total_all V e Hincl). Qed.

Theorem build_total : forall V e,
    wf e = true -> incl (vars e) V -> exists c, build V e = Some c.
Proof. intros V e Hwf Hincl. apply build_total_gen. exact Hincl. Qed.

(* ------------------------------------------------------------------ *)
(* 3. deep-tree (explicit stack) path = recursive path                 *)
(* ------------------------------------------------------------------ *)

Lemma fold_rec_build : forall V e,
    fold_rec (option clo) (build V) build_bin build_un e = build V e.
Proof.
  intros V.
  induction e as [ q | y | p | o l IHl r IHr | o a IHa | vid xs | cs k es
                 | kl dls kr drs | k es | k es | k es m | vid xs p | vid xs o
                 | es | isvar es | es ]; try reflexivity.
  - simpl. rewrite IHl, IHr. reflexivity.
  - simpl. rewrite IHa. reflexivity.
Qed.

Theorem build_iter_eq : forall V e, build_iter V e = Some (build V e).
Proof.
  intros V e. unfold build_iter. rewrite fold_iter_correct.
  rewrite fold_rec_build. reflexivity.
Qed.

Theorem compile_threshold_free : forall V th e, compile V th e = build V e.
Proof.
  intros V th e. unfold compile. rewrite build_iter_eq.
  destruct (th <=? depth_left e); reflexivity.
Qed.

(* ------------------------------------------------------------------ *)
(* 4. ordering / superset independence                                 *)
(* ------------------------------------------------------------------ *)

Section Ext.
  Variable rho1 rho2 : env.
  Variable penv : env.

  Definition ext_at (e : expr) : Prop :=
    (forall v, In v (vars e) -> rho1 v = rho2 v) ->
    evalR rho1 penv e = evalR rho2 penv e.

  Lemma map_evalR_ext : forall es,
      Forall ext_at es ->
      (forall v, In v (flat_map vars es) -> rho1 v = rho2 v) ->
      map (evalR rho1 penv) es = map (evalR rho2 penv) es.
  Proof.
    induction es as [|a es IHes]; intros HF Hagree.
    - reflexivity.
    - inversion HF as [|a' es' HPa HPes]; subst. simpl. f_equal.
      + apply HPa. intros v Hv. apply Hagree. simpl. apply in_or_app. left. exact Hv.
      + apply IHes; [exact HPes|].
        intros v Hv. apply Hagree. simpl. apply in_or_app. right. exact Hv.
  Qed.

  Lemma map_env_ext : forall (f : R -> R) xs,
      (forall v, In v xs -> rho1 v = rho2 v) ->
      map (fun y => f (rho1 y)) xs = map (fun y => f (rho2 y)) xs.
  Proof.
    intros f xs Hagree. apply map_ext_in. intros y Hy. rewrite (Hagree y Hy). reflexivity.
  Qed.

  Lemma evalR_ext_all : forall e, ext_at e.
  Proof.
    induction e as [ q | y | p | o l r IHl IHr | o a IHa | vid xs | cs k es IHes
                   | kl dls kr drs IHls IHrs | k es IHes | k es IHes | k es m IHes
                   | vid xs p | vid xs o | es IHes | isvar es IHes | es IHes ]
                    using expr_ind'; intros Hagree.
    - reflexivity.
    - simpl. apply Hagree. left. reflexivity.
    - reflexivity.
    - rewrite !evalR_Bin. simpl in Hagree.
      rewrite IHl, IHr; [reflexivity| |];
        intros v Hv; apply Hagree; apply in_or_app; [right|left]; exact Hv.
    - simpl. rewrite IHa; [reflexivity|exact Hagree].
    - simpl. simpl in Hagree. f_equal.
      apply (map_env_ext (fun t => t) xs Hagree).
    - simpl. rewrite (map_evalR_ext es IHes Hagree). reflexivity.
    - simpl. simpl in Hagree.
      rewrite (map_evalR_ext dls IHls), (map_evalR_ext drs IHrs); [reflexivity| |];
        intros v Hv; apply Hagree; apply in_or_app; [right|left]; exact Hv.
    - simpl. rewrite <- !(map_map (evalR _ penv) Rsqr es).
      rewrite (map_evalR_ext es IHes Hagree). reflexivity.
    - simpl. rewrite <- !(map_map (evalR _ penv) Rabs es).
      rewrite (map_evalR_ext es IHes Hagree). reflexivity.
    - simpl. rewrite (map_evalR_ext es IHes Hagree). reflexivity.
    - simpl. simpl in Hagree. f_equal.
      apply (map_env_ext (fun t => powQ t p) xs Hagree).
    - simpl. simpl in Hagree. f_equal.
      apply (map_env_ext (fun t => uopR o t) xs Hagree).
    - simpl. rewrite (map_evalR_ext es IHes Hagree). reflexivity.
    - simpl. rewrite (map_evalR_ext es IHes Hagree). reflexivity.
    - simpl. rewrite <- !(map_map (evalR _ penv) Rsqr es).
      rewrite (map_evalR_ext es IHes Hagree). reflexivity.
  Qed.
End Ext.

Theorem evalR_ext_vars : forall rho1 rho2 penv e,
    (forall v, In v (vars e) -> rho1 v = rho2 v) ->
    evalR rho1 penv e = evalR rho2 penv e.
Proof. intros rho1 rho2 penv e Hagree. exact (evalR_ext_all rho1 rho2 penv e Hagree). Qed.

Corollary compile_any_order : forall V1 V2 x1 x2 e c1 c2 penv,
    wf e = true -> NoDup V1 -> NoDup V2 ->
    List.length x1 = List.length V1 -> List.length x2 = List.length V2 ->
    (forall v, In v (vars e) -> env_of V1 x1 v = env_of V2 x2 v) ->
    build V1 e = Some c1 -> build V2 e = Some c2 ->
    Compile.run x1 penv c1 = Compile.run x2 penv c2.
Proof.
  intros V1 V2 x1 x2 e c1 c2 penv Hwf HV1 HV2 Hl1 Hl2 Hagree Hb1 Hb2.
  rewrite (build_correct V1 e c1 x1 penv Hwf HV1 Hl1 Hb1).
  rewrite (build_correct V2 e c2 x2 penv Hwf HV2 Hl2 Hb2).
  apply evalR_ext_vars. exact Hagree.
Qed.

(* ------------------------------------------------------------------ *)
(* 5. parameters are read at call time                                 *)
(* ------------------------------------------------------------------ *)

Lemma run_penv_ext : forall x penv1 penv2,
    (forall p, penv1 p = penv2 p) ->
    forall c, Compile.run x penv1 c = Compile.run x penv2 c.
Proof.
  intros x penv1 penv2 Hp.
  fix IH 1. intros c.
  assert (Hmap : forall fs, map (crun x penv1) fs = map (crun x penv2) fs).
  { induction fs as [|f fs IHfs]; [reflexivity|]. simpl. rewrite (IH f), IHfs. reflexivity. }
  assert (Hvec : forall vi vf, vecrun x penv1 vi vf = vecrun x penv2 vi vf).
  { intros vi vf. destruct vi as [idx|]; simpl; [reflexivity|apply Hmap]. }
  destruct c as [ q | p | i | o l r | o a | idx | cs idx | cs fs | fs
                | li lf ri rf | vi vf | vi vf | vi vf m | idx k | idx o | fs ].
  - reflexivity.
  - simpl. apply Hp.
  - reflexivity.
  - rewrite !run_CBin. rewrite (IH l), (IH r). reflexivity.
  - simpl. rewrite (IH a). reflexivity.
  - reflexivity.
  - reflexivity.
  - simpl. rewrite Hmap. reflexivity.
  - simpl. rewrite Hmap. reflexivity.
  - rewrite !run_CDotVec, !Hvec. reflexivity.
  - rewrite !run_CNorm2, !Hvec. reflexivity.
  - rewrite !run_CNorm1, !Hvec. reflexivity.
  - rewrite !run_CQForm, !Hvec. reflexivity.
  - reflexivity.
  - reflexivity.
  - simpl. rewrite <- !(map_map (crun x _) Rsqr fs). rewrite Hmap. reflexivity.
Qed.

Theorem run_reads_params_at_call_time : forall V e c x penv1 penv2,
    build V e = Some c -> (forall p, penv1 p = penv2 p) ->
    Compile.run x penv1 c = Compile.run x penv2 c.
Proof.
  intros V e c x penv1 penv2 Hb Hp. apply run_penv_ext. exact Hp.
Qed.

(* one closure, built once without looking at any parameter value, is right
   for EVERY parameter valuation supplied at call time *)
Corollary one_closure_all_params : forall V e c x,
    wf e = true -> NoDup V -> List.length x = List.length V ->
    build V e = Some c ->
    forall penv, Compile.run x penv c = evalR (env_of V x) penv e.
Proof.
  intros V e c x Hwf HV Hlen Hb penv. apply build_correct; assumption.
Qed.

(* end-to-end for the public entry point with its depth switch *)
Corollary compile_correct : forall V th e x penv,
    wf e = true -> NoDup V -> List.length x = List.length V -> incl (vars e) V ->
    exists c, compile V th e = Some c /\
              Compile.run x penv c = evalR (env_of V x) penv e.
Proof.
  intros V th e x penv Hwf HV Hlen Hincl.
  destruct (build_total V e Hwf Hincl) as [c Hc].
  exists c. split.
  - rewrite compile_threshold_free. exact Hc.
  - apply build_correct; assumption.
Qed.

(* converse of totality: the builder succeeds ONLY IF every variable of the
   expression is listed (KeyError otherwise) *)
Section Converse.
  Variable V : list string.

  Definition conv_at (e : expr) : Prop :=
    forall c, cwf e = true -> build V e = Some c -> incl (vars e) V.

  Lemma all_some_build_incl : forall es fs,
      Forall conv_at es -> forallb cwf es = true ->
      all_some (map (build V) es) = Some fs -> incl (flat_map vars es) V.
  Proof.
    induction es as [|a es IHes]; intros fs HF Hwf Hall y Hy.
    - destruct Hy.
    - simpl in Hall, Hwf, Hy. apply andb_prop in Hwf. destruct Hwf as [Ha Hes].
      inversion HF as [|a' es' HPa HPes]; subst.
      destruct (build V a) as [ca|] eqn:Eca; [|discriminate].
      destruct (all_some (map (build V) es)) as [r|] eqn:Er; [|discriminate].
      apply in_app_or in Hy. destruct Hy as [Hy|Hy].
      + exact (HPa ca Ha Eca y Hy).
      + exact (IHes r HPes Hes eq_refl y Hy).
  Qed.

  Lemma bvec_incl : forall k es p,
      Forall conv_at es -> kind_cwf k es = true -> forallb cwf es = true ->
      bvec V k es = Some p -> incl (flat_map vars es) V.
  Proof.
    intros k es p HF Hk Hwf Hb. destruct k as [vid|]; simpl in Hb, Hk.
    - destruct (indices V (vec_names es)) as [idx|] eqn:Eidx; [|discriminate].
      intros y Hy. apply (indices_some_incl V _ _ Eidx).
      apply vars_incl_vec_names; assumption.
    - destruct (all_some (map (build V) es)) as [fs|] eqn:Efs; [|discriminate].
      eapply all_some_build_incl; eassumption.
  Qed.

  Lemma build_some_incl_all : forall e, conv_at e.
  Proof.
    induction e as [ q | y | p | o l r IHl IHr | o a IHa | vid xs | cs k es IHes
                   | kl dls kr drs IHls IHrs | k es IHes | k es IHes | k es m IHes
                   | vid xs p | vid xs o | es IHes | isvar es IHes | es IHes ]
                    using expr_ind'; intros c Hwf Hb.
    - intros z Hz. destruct Hz.
    - simpl in Hb. destruct (index V y) as [i|] eqn:Ei; [|discriminate].
      intros z Hz. destruct Hz as [Hz|[]]. subst. eapply index_some_in. exact Ei.
    - intros z Hz. destruct Hz.
    - simpl in Hb, Hwf. apply andb_prop in Hwf. destruct Hwf as [Hwl Hwr].
      unfold build_bin in Hb.
      destruct (build V l) as [ca|] eqn:Eca; [|discriminate].
      destruct (build V r) as [cb|] eqn:Ecb; [|discriminate].
      simpl. apply incl_app; [exact (IHl ca Hwl Eca)|exact (IHr cb Hwr Ecb)].
    - simpl in Hb, Hwf. unfold build_un in Hb.
      destruct (build V a) as [ca|] eqn:Eca; [|discriminate].
      simpl. exact (IHa ca Hwf Eca).
    - simpl in Hb. destruct (indices V xs) as [idx|] eqn:Eidx; [|discriminate].
      simpl. exact (indices_some_incl V _ _ Eidx).
    - rewrite build_LinComb in Hb. simpl in Hwf.
      apply andb_prop in Hwf. destruct Hwf as [Hk Hes]. simpl.
      destruct k as [kid|]; simpl in Hk.
      + destruct (indices V (vec_names es)) as [idx|] eqn:Eidx; [|discriminate].
        intros z Hz. apply (indices_some_incl V _ _ Eidx).
        apply vars_incl_vec_names; assumption.
      + destruct (all_some (map (build V) es)) as [fs|] eqn:Efs; [|discriminate].
        eapply all_some_build_incl; eassumption.
    - rewrite build_Dot in Hb. simpl in Hwf. split_andb.
      destruct (bvec V kl dls) as [pl|] eqn:El; [|discriminate].
      destruct (bvec V kr drs) as [pr|] eqn:Er; [|destruct pl; discriminate].
      simpl. apply incl_app; eapply bvec_incl; eassumption.
    - rewrite build_L2n in Hb. simpl in Hwf. split_andb.
      destruct (bvec V k es) as [pv|] eqn:Ev; [|discriminate].
      simpl. eapply bvec_incl; eassumption.
    - rewrite build_L1n in Hb. simpl in Hwf. split_andb.
      destruct (bvec V k es) as [pv|] eqn:Ev; [|discriminate].
      simpl. eapply bvec_incl; eassumption.
    - rewrite build_QForm in Hb. simpl in Hwf. split_andb.
      destruct (bvec V k es) as [pv|] eqn:Ev; [|discriminate].
      simpl. eapply bvec_incl; eassumption.
    - simpl in Hb. destruct (indices V xs) as [idx|] eqn:Eidx; [|discriminate].
      simpl. exact (indices_some_incl V _ _ Eidx).
    - simpl in Hb. destruct (indices V xs) as [idx|] eqn:Eidx; [|discriminate].
      simpl. exact (indices_some_incl V _ _ Eidx).
    - simpl in Hb, Hwf.
      destruct (all_some (map (build V) es)) as [fs|] eqn:Efs; [|discriminate].
      simpl. eapply all_some_build_incl; eassumption.
    - simpl in Hb, Hwf.
      destruct (all_some (map (build V) es)) as [fs|] eqn:Efs; [|discriminate].
      simpl. eapply all_some_build_incl; eassumption.
    - simpl in Hb, Hwf.
      destruct (all_some (map (build V) es)) as [fs|] eqn:Efs; [|discriminate].
      simpl. eapply all_some_build_incl; eassumption.
  Qed.
End Converse.

Theorem build_some_iff : forall V e,
    wf e = true -> ((exists c, build V e = Some c) <-> incl (vars e) V).
Proof.
  intros V e Hwf. split.
  - intros [c Hc]. exact (build_some_incl_all V e c (wf_cwf e Hwf) Hc).
  - apply build_total. exact Hwf.
Qed.

(* ------------------------------------------------------------------ *)
(* 6. non-vacuity, and the hypotheses that cannot be dropped           *)
(* ------------------------------------------------------------------ *)

Open Scope string_scope.

(* 2a + 3b + p * sum(a, b), compiled against the permuted superset [z; b; a] *)
Definition ex_e : expr :=
  Bin Add (LinComb [(2#1)%Q; (3#1)%Q] (KVar 1%N) [Var "a"; Var "b"])
          (Bin Mul (Param "p") (VSum 1%N ["a"; "b"])).
Definition ex_V : list string := ["z"; "b"; "a"].

Example ex_wf : wf ex_e = true.
Proof. vm_compute. reflexivity. Qed.

Example ex_builds : exists c, build ex_V ex_e = Some c.
Proof. eexists. vm_compute. reflexivity. Qed.

Example ex_closure :
  build ex_V ex_e =
  Some (CBin Add (CDotIdx [(2#1)%Q; (3#1)%Q] [2; 1])
                 (CBin Mul (CParam "p") (CSumIdx [2; 1]))).
Proof. vm_compute. reflexivity. Qed.

Example ex_compile_deep_path : compile ex_V 0 ex_e = build ex_V ex_e.
Proof. vm_compute. reflexivity. Qed.

Example ex_NoDup : NoDup ex_V.
Proof.
  unfold ex_V. repeat constructor; simpl; intros H;
    repeat (destruct H as [H|H]; try discriminate H); exact H.
Qed.

(* the hypotheses of [build_correct] are jointly satisfiable, at every point
   and for every parameter valuation *)
Example ex_correct : forall (z b a : R) penv c,
    build ex_V ex_e = Some c ->
    Compile.run [z; b; a] penv c = evalR (env_of ex_V [z; b; a]) penv ex_e.
Proof.
  intros z b a penv c Hc.
  apply build_correct; [exact ex_wf|exact ex_NoDup|reflexivity|exact Hc].
Qed.

(* NoDup V cannot be dropped: x["a"] reads the LAST "a" (value 2), the
   mathematical environment the FIRST (value 1) *)
Example nodup_needed :
  wf (Var "a") = true /\
  build ["a"; "a"] (Var "a") = Some (CIdx 1) /\
  Compile.run [1%R; 2%R] (fun _ => 0%R) (CIdx 1)
  <> evalR (env_of ["a"; "a"] [1%R; 2%R]) (fun _ => 0%R) (Var "a").
Proof.
  split; [reflexivity|]. split; [reflexivity|].
  simpl. unfold xat. simpl. lra.
Qed.

(* some well-formedness is needed: a "VectorVariable" operand holding a
   non-Variable node is compiled to x[[]] *)
Example wf_needed :
  wf (L1n (KVar 0%N) [Const (1#1)%Q]) = false /\
  build [] (L1n (KVar 0%N) [Const (1#1)%Q]) = Some (CNorm1 (Some []) []) /\
  Compile.run [] (fun _ => 0%R) (CNorm1 (Some []) [])
  <> evalR (env_of [] []) (fun _ => 0%R) (L1n (KVar 0%N) [Const (1#1)%Q]).
Proof.
  split; [reflexivity|]. split; [reflexivity|].
  simpl. unfold Q2R. simpl. rewrite Rabs_right; lra.
Qed.

Print Assumptions build_correct.
Print Assumptions build_correct_gen.
Print Assumptions build_total.
Print Assumptions build_total_gen.
Print Assumptions build_some_iff.
Print Assumptions build_iter_eq.
Print Assumptions compile_threshold_free.
Print Assumptions evalR_ext_vars.
Print Assumptions compile_any_order.
Print Assumptions run_reads_params_at_call_time.
Print Assumptions one_closure_all_params.
Print Assumptions compile_correct.
Print Assumptions ex_builds.
Print Assumptions ex_correct.
Print Assumptions nodup_needed.
Print Assumptions wf_needed.
