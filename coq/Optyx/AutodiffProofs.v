(* AutodiffProofs.v — property C02: the tree returned by symbolic
   differentiation ([Autodiff.grad], the model of optyx's autodiff.py) denotes,
   at every regular point, the true partial derivative of the original
   expression ([grad_correct], Coquelicot's [is_derive] on R); it is the literal
   [Const 0] for variables that do not occur ([grad_absent]); it is again a
   well-formed tree ([grad_wf]) without inexact nodes ([grad_exact_ops]).

   Hypotheses of [grad_correct] besides [wf] and [regular]:
   - [exact_ops e]: no Log2/Log10 node (their derivative tree embeds the double
     nearest to ln 2 / ln 10, so the statement over R is only approximate), and
     every VectorUnarySum node carries one of the 10 operators the rule knows
     (optyx's VectorUnarySum constructor rejects the others; for them the rule
     returns 0).
   - [dot_same_ok e]: in every node [Dot (KVar i) ls (KVar i) rs] the two
     element lists carry the same variable names.  The harness numbers Python
     objects by identity, so equal ids mean "the same VectorVariable object";
     the code tests [left is right] and then answers 2*v. *)
From Coquelicot Require Import Coquelicot.
From Coq Require Import Reals QArith Qreals String List Bool ZArith Lia Lra.
From Optyx Require Import Syntax SemR Autodiff AutodiffLemmas.
Import ListNotations.
Close Scope Q_scope.
Open Scope R_scope.

(* ------------------------------------------------------------------ *)
(** * Side predicates *)

Definition uop_exact (o : uop) : bool :=
  match o with Log2 | Log10 => false | _ => true end.

(* the operators VectorUnarySum admits (see [vunary_deriv]) *)
Definition vun_ok (o : uop) : bool :=
  match o with
  | Sin | Cos | Exp | Log | Sqrt | Sinh | Cosh | Tanh | Tan | Abs => true
  | _ => false
  end.

Fixpoint exact_ops (e : expr) : bool :=
  match e with
  | Const _ | Var _ | Param _ => true
  | Bin _ l r => exact_ops l && exact_ops r
  | Un o a => uop_exact o && exact_ops a
  | VSum _ _ => true
  | LinComb _ _ es | L2n _ es | L1n _ es | QForm _ es _ | VExprSum es | MSum _ es
  | Frob es => forallb exact_ops es
  | Dot _ ls _ rs => forallb exact_ops ls && forallb exact_ops rs
  | VPowSum _ _ _ => true
  | VUnSum _ _ o => vun_ok o
  end.

Definition same_vec (kl : vkind) (ls : list expr) (kr : vkind) (rs : list expr) : bool :=
  match kl, kr with
  | KVar i, KVar j =>
      if N.eqb i j then list_eqb String.eqb (vec_names ls) (vec_names rs) else true
  | _, _ => true
  end.

Fixpoint dot_same_ok (e : expr) : bool :=
  match e with
  | Const _ | Var _ | Param _ | VSum _ _ | VPowSum _ _ _ | VUnSum _ _ _ => true
  | Bin _ l r => dot_same_ok l && dot_same_ok r
  | Un _ a => dot_same_ok a
  | LinComb _ _ es | L2n _ es | L1n _ es | QForm _ es _ | VExprSum es | MSum _ es
  | Frob es => forallb dot_same_ok es
  | Dot kl ls kr rs =>
      same_vec kl ls kr rs && forallb dot_same_ok ls && forallb dot_same_ok rs
  end.

(* only the scalar constructors *)
Fixpoint scalar_only (e : expr) : bool :=
  match e with
  | Const _ | Var _ | Param _ => true
  | Bin _ l r => scalar_only l && scalar_only r
  | Un _ a => scalar_only a
  | _ => false
  end.

(* v occurs in e *)
Fixpoint mentions (v : string) (e : expr) : bool :=
  match e with
  | Const _ | Param _ => false
  | Var x => String.eqb x v
  | Bin _ l r => mentions v l || mentions v r
  | Un _ a => mentions v a
  | VSum _ xs | VPowSum _ xs _ | VUnSum _ xs _ => mem_name v xs
  | LinComb _ _ es | L2n _ es | L1n _ es | QForm _ es _ | VExprSum es | MSum _ es
  | Frob es => existsb (mentions v) es
  | Dot _ ls _ rs => existsb (mentions v) ls || existsb (mentions v) rs
  end.

(* ------------------------------------------------------------------ *)
(** * Correctness of the scalar rules *)

Section Correct.
  Variables ln2c ln10c : Q.
  Variable v : string.
  Variables rho penv : env.

  Notation ev := (evalR rho penv).
  Notation g := (grad ln2c ln10c v).
  Notation x0 := (rho v).

  (* the function of the differentiation variable denoted by e *)
  Definition fn_of (e : expr) (t : R) : R := evalR (upd rho v t) penv e.

  Definition DerivOK (e : expr) : Prop := is_derive (fn_of e) x0 (ev (g e)).

  Lemma F_x0 e : fn_of e x0 = ev e.
  Proof. unfold fn_of. now rewrite upd_same. Qed.

  Lemma P_const q : DerivOK (Const q).
  Proof. unfold DerivOK. simpl. rewrite Q2R_0'. apply is_derive_const_R. Qed.

  Lemma P_param p : DerivOK (Param p).
  Proof. unfold DerivOK. simpl. rewrite Q2R_0'. apply is_derive_const_R. Qed.

  Lemma ev_grad_var y : ev (g (Var y)) = ind v y.
  Proof.
    simpl. unfold ind. destruct (String.eqb y v); [apply Q2R_1'|apply Q2R_0'].
  Qed.

  Lemma upd_derive y : is_derive (fun t => upd rho v t y) x0 (ind v y).
  Proof.
    unfold upd, ind. destruct (String.eqb y v).
    - apply is_derive_id_R.
    - apply is_derive_const_R.
  Qed.

  Lemma P_var y : DerivOK (Var y).
  Proof. unfold DerivOK. rewrite ev_grad_var. apply upd_derive. Qed.

  (* --- unary --- *)
  Lemma unary_grad_ev o a da :
    uop_exact o = true ->
    ev (unary_grad ln2c ln10c o a da) = uop_d o (ev a) * ev da.
  Proof.
    intros Ho. destruct o; try discriminate; unfold unary_grad, uop_d;
      rewrite ?s_neg_ev, ?s_mul_ev, ?s_div_ev, ?s_neg_ev, ?s_div_ev, ?s_sub_ev, ?s_add_ev,
        ?s_mul_ev, ?ev_c1, ?ev_c2; simpl; rewrite ?s_sub_ev, ?s_add_ev, ?s_mul_ev, ?ev_c1;
      try ring.
  Qed.

  Lemma P_un o a :
    uop_exact o = true -> uop_reg o (ev a) -> DerivOK a -> DerivOK (Un o a).
  Proof.
    unfold DerivOK. intros Ho Hreg Ha.
    change (fn_of (Un o a)) with (fun t => uopR o (fn_of a t)).
    eapply is_derive_eq.
    - apply (is_derive_comp_R (uopR o) (fn_of a)); [|exact Ha].
      apply uop_derive. rewrite F_x0. exact Hreg.
    - rewrite F_x0. simpl g. rewrite unary_grad_ev by exact Ho. ring.
  Qed.

  (* --- binary --- *)
  Lemma is_const_inv r : is_const r = true -> exists q, r = Const q.
  Proof. destruct r; try discriminate. intros _. eexists; reflexivity. Qed.

  Lemma binary_grad_pow_gen l r dl dr :
    is_const r = false ->
    binary_grad Pow l r dl dr =
    s_mul (Bin Pow l r) (s_add (s_mul dr (Un Log l)) (s_div (s_mul r dl) l)).
  Proof. destruct r; simpl; intros H; try discriminate; reflexivity. Qed.

  Lemma F_pow_gen l r t :
    is_const r = false -> fn_of (Bin Pow l r) t = Rpower (fn_of l t) (fn_of r t).
  Proof. intros H. unfold fn_of. now apply evalR_pow_gen. Qed.

  Lemma P_pow_const l n : powQ_reg (ev l) n -> DerivOK l -> DerivOK (Bin Pow l (Const n)).
  Proof.
    unfold DerivOK. intros Hreg Hl.
    change (fn_of (Bin Pow l (Const n))) with (fun t => powQ (fn_of l t) n).
    simpl g. unfold binary_grad.
    destruct (Qeq_bool n 0) eqn:E0; [|destruct (Qeq_bool n 1) eqn:E1].
    - rewrite ev_c0. apply is_derive_ext with (fun _ : R => 1).
      + intros t. symmetry. now apply powQ_exp0.
      + apply is_derive_const_R.
    - apply is_derive_ext with (fn_of l); [|exact Hl].
      intros t. symmetry. now apply powQ_exp1.
    - eapply is_derive_eq.
      + apply (is_derive_comp_R (fun t => powQ t n) (fn_of l)); [|exact Hl].
        apply powQ_derive. rewrite F_x0. exact Hreg.
      + rewrite F_x0, !s_mul_ev, s_pow_ev; [simpl; ring|].
        intros Hz _ _. rewrite (is_zero_ev _ _ _ Hz) in Hreg.
        unfold powQ_reg in Hreg. rewrite Qis_int_minus1, Qfloor_minus1.
        destruct (Qis_int n) eqn:Hi; [|lra]. split; [reflexivity|].
        destruct Hreg as [Hreg|Hreg]; [|lra].
        assert (H0 : Qfloor' n <> 0%Z).
        { intros H. pose proof (Qint_floor_eq n 0 Hi H) as Hq.
          change (Qeq_bool n 0 = true) in Hq. congruence. }
        assert (H1 : Qfloor' n <> 1%Z).
        { intros H. pose proof (Qint_floor_eq n 1 Hi H) as Hq.
          change (Qeq_bool n 1 = true) in Hq. congruence. }
        lia.
  Qed.

  Definition bin_reg (o : bop) (l r : expr) : Prop :=
    match o with
    | Div => ev r <> 0
    | Pow => match r with
             | Const q => powQ_reg (ev l) q
             | _ => 0 < ev l
             end
    | _ => True
    end.

  Lemma P_bin o l r : bin_reg o l r -> DerivOK l -> DerivOK r -> DerivOK (Bin o l r).
  Proof.
    intros Hreg Hl Hr. destruct o.
    - unfold DerivOK in *. change (fn_of (Bin Add l r)) with (fun t => fn_of l t + fn_of r t).
      simpl g. unfold binary_grad. rewrite s_add_ev.
      apply is_derive_plus_R; assumption.
    - unfold DerivOK in *. change (fn_of (Bin Sub l r)) with (fun t => fn_of l t - fn_of r t).
      simpl g. unfold binary_grad. rewrite s_sub_ev.
      apply is_derive_minus_R; assumption.
    - unfold DerivOK in *. change (fn_of (Bin Mul l r)) with (fun t => fn_of l t * fn_of r t).
      simpl g. unfold binary_grad. rewrite s_add_ev, !s_mul_ev.
      eapply is_derive_eq; [apply is_derive_mult_R; eassumption|].
      rewrite !F_x0. ring.
    - unfold DerivOK in *. change (fn_of (Bin Div l r)) with (fun t => fn_of l t / fn_of r t).
      simpl g. unfold binary_grad. rewrite s_div_ev, s_sub_ev, !s_mul_ev.
      simpl in Hreg.
      eapply is_derive_eq; [apply is_derive_div; try eassumption|].
      + rewrite F_x0. exact Hreg.
      + rewrite !F_x0. field. exact Hreg.
    - destruct (is_const r) eqn:Ec.
      + destruct (is_const_inv r Ec) as [n ->]. apply P_pow_const; assumption.
      + assert (Hpos : 0 < ev l) by (destruct r; try discriminate; exact Hreg).
        unfold DerivOK in *.
        change (g (Bin Pow l r)) with (binary_grad Pow l r (g l) (g r)).
        rewrite binary_grad_pow_gen by exact Ec.
        apply is_derive_ext with (fun t => Rpower (fn_of l t) (fn_of r t)).
        * intros t. symmetry. now apply F_pow_gen.
        * eapply is_derive_eq; [apply Rpower_derive; try eassumption|].
          -- rewrite F_x0. exact Hpos.
          -- rewrite !F_x0, s_mul_ev, s_add_ev, s_div_ev, !s_mul_ev.
             rewrite evalR_pow_gen by exact Ec. simpl. ring.
  Qed.

  Lemma regular_bin o l r :
    regular rho penv (Bin o l r) ->
    regular rho penv l /\ regular rho penv r /\ bin_reg o l r.
  Proof. simpl. unfold bin_reg. tauto. Qed.

  (** ** Scalar core *)
  Theorem grad_correct_scalar_aux e :
    scalar_only e = true -> exact_ops e = true -> regular rho penv e -> DerivOK e.
  Proof.
    induction e as [q|y|p|o l IHl r IHr|o a IHa| | | | | | | | | | | ];
      try discriminate; intros Hs Hx Hr.
    - apply P_const.
    - apply P_var.
    - apply P_param.
    - simpl in Hs, Hx. apply andb_true_iff in Hs. apply andb_true_iff in Hx.
      destruct Hs as [Hs1 Hs2]. destruct Hx as [Hx1 Hx2].
      apply regular_bin in Hr. destruct Hr as [Hr1 [Hr2 Hr3]].
      apply P_bin; auto.
    - simpl in Hs, Hx. apply andb_true_iff in Hx. destruct Hx as [Hx1 Hx2].
      destruct Hr as [Hr1 Hr2]. apply P_un; auto.
  Qed.

  (* ---------------------------------------------------------------- *)
  (** ** Vector and matrix rules *)

  Notation dv := (fun e : expr => ev (g e)).

  (* --- evaluation of the accumulating folds --- *)
  Lemma sum_grad_ev des acc : ev (sum_grad des acc) = ev acc + sumR (map ev des).
  Proof.
    revert acc. induction des as [|d des IH]; intros acc; simpl; [ring|].
    rewrite IH, s_add_ev. ring.
  Qed.

  Lemma lincomb_grad_ev cs des acc :
    ev (lincomb_grad cs des acc) = ev acc + dotR (map Q2R cs) (map ev des).
  Proof.
    revert des acc. induction cs as [|c cs IH]; intros [|d des] acc; simpl; try ring.
    rewrite IH, s_add_ev, s_mul_ev. simpl. ring.
  Qed.

  Lemma norm2_grad_ev node es des acc :
    ev (norm2_grad node es des acc) =
    ev acc + dotR (map (fun a => ev a / ev node) es) (map ev des).
  Proof.
    revert des acc. induction es as [|a es IH]; intros [|d des] acc; simpl; try ring.
    rewrite IH, s_add_ev, s_mul_ev, s_div_ev. ring.
  Qed.

  Lemma norm1_grad_ev es des acc :
    ev (norm1_grad es des acc) =
    ev acc + dotR (map (fun a => ev a / Rabs (ev a)) es) (map ev des).
  Proof.
    revert des acc. induction es as [|a es IH]; intros [|d des] acc; simpl; try ring.
    rewrite IH, s_add_ev, s_mul_ev, s_div_ev. simpl. ring.
  Qed.

  Lemma dv_map_Var xs : map dv (map Var xs) = map (ind v) xs.
  Proof. rewrite map_map. apply map_ext. intros y. apply ev_grad_var. Qed.

  (* --- sums: VectorSum, VectorExpressionSum, MatrixSum --- *)
  Lemma P_vsum i xs : NoDup xs -> DerivOK (VSum i xs).
  Proof.
    intros Hnd. unfold DerivOK.
    eapply is_derive_eq.
    - apply (sumR_derive xs (fun y t => upd rho v t y) (fun y => 1 * ind v y)).
      apply Forall_forall. intros y _. rewrite Rmult_1_l. apply upd_derive.
    - rewrite (sum_indicator (fun _ => 1) v xs Hnd). simpl.
      destruct (mem_name v xs); [apply eq_sym, Q2R_1'|apply eq_sym, Q2R_0'].
  Qed.

  Lemma P_sum_list es : Forall DerivOK es ->
    is_derive (fun t => sumR (map (fun e => fn_of e t) es)) x0 (ev (sum_grad (map g es) c0)).
  Proof.
    intros H. eapply is_derive_eq.
    - exact (sumR_derive es fn_of dv x0 H).
    - rewrite sum_grad_ev, ev_c0, map_map. ring.
  Qed.

  Lemma P_vexprsum es : Forall DerivOK es -> DerivOK (VExprSum es).
  Proof. intros H. exact (P_sum_list es H). Qed.

  Lemma P_msum b es : Forall DerivOK es -> DerivOK (MSum b es).
  Proof. intros H. exact (P_sum_list es H). Qed.

  (* --- LinearCombination --- *)
  Lemma lincomb_derive cs es : Forall DerivOK es ->
    is_derive (fn_of (LinComb cs KExpr es)) x0 (dotR (map Q2R cs) (map dv es)).
  Proof. intros H. exact (dotR_const_derive (map Q2R cs) es fn_of dv x0 H). Qed.

  Lemma dotR_ind_zero cs xs : ~ In v xs -> dotR cs (map (ind v) xs) = 0.
  Proof.
    revert cs. induction xs as [|y xs IH]; intros [|c cs] Hn; simpl; try reflexivity.
    rewrite IH by (intros H; apply Hn; now right).
    unfold ind. destruct (String.eqb y v) eqn:E; [|ring].
    apply String.eqb_eq in E. exfalso. apply Hn. left. exact E.
  Qed.

  Lemma first_coeff_ev cs xs :
    NoDup xs -> ev (first_coeff v cs (map Var xs)) = dotR (map Q2R cs) (map (ind v) xs).
  Proof.
    intros Hnd. revert cs. induction Hnd as [|y xs Hy Hxs IH]; intros [|c cs]; simpl;
      try apply Q2R_0'.
    unfold ind at 1. destruct (String.eqb y v) eqn:E.
    - apply String.eqb_eq in E. subst y. rewrite dotR_ind_zero by exact Hy. simpl. ring.
    - rewrite IH. ring.
  Qed.

  Lemma kind_wf_KVar i es :
    kind_wf (KVar i) es = true -> exists xs, es = map Var xs /\ NoDup xs.
  Proof.
    unfold kind_wf. intros H. apply andb_true_iff in H. destruct H as [H1 H2].
    exists (vec_names es). split; [apply is_var_names, H1|apply NoDupb_NoDup, H2].
  Qed.

  Lemma P_lincomb cs k es : kind_wf k es = true -> Forall DerivOK es -> DerivOK (LinComb cs k es).
  Proof.
    intros Hk H. unfold DerivOK. eapply is_derive_eq; [exact (lincomb_derive cs es H)|].
    destruct k as [i|]; simpl g.
    - destruct (kind_wf_KVar i es Hk) as [xs [-> Hnd]].
      rewrite first_coeff_ev by exact Hnd. now rewrite dv_map_Var.
    - rewrite lincomb_grad_ev, ev_c0, map_map. ring.
  Qed.

  (* --- L2Norm / FrobeniusNorm --- *)
  Notation sumsq es := (sumR (map (fun e => Rsqr (ev e)) es)).

  Lemma sumR_scal_ext {A} (k : R) (h h' : A -> R) (l : list A) :
    (forall a, h' a = k * h a) -> sumR (map h' l) = k * sumR (map h l).
  Proof. intros H. rewrite <- sumR_scal. f_equal. apply map_ext, H. Qed.

  Lemma sumsq_derive es : Forall DerivOK es ->
    is_derive (fun t => sumR (map (fun e => Rsqr (fn_of e t)) es)) x0
              (sumR (map (fun e => 2 * ev e * dv e) es)).
  Proof.
    intros H. apply (sumR_derive es (fun e t => Rsqr (fn_of e t))).
    eapply Forall_impl; [|exact H]. intros e He. unfold Rsqr.
    eapply is_derive_eq; [apply is_derive_mult_R; exact He|]. rewrite F_x0. ring.
  Qed.

  Lemma norm2_derive es : Forall DerivOK es -> 0 < sumsq es ->
    is_derive (fun t => sqrt (sumR (map (fun e => Rsqr (fn_of e t)) es))) x0
              (sumR (map (fun e => ev e / sqrt (sumsq es) * dv e) es)).
  Proof.
    intros H Hpos.
    assert (Hx : sumR (map (fun e => Rsqr (fn_of e x0)) es) = sumsq es).
    { unfold fn_of. now rewrite upd_same. }
    eapply is_derive_eq.
    - apply (is_derive_sqrt (fun t => sumR (map (fun e => Rsqr (fn_of e t)) es)));
        [apply sumsq_derive, H|]. rewrite Hx. exact Hpos.
    - cbv beta. rewrite Hx.
      assert (Hs := sqrt_lt_R0 _ Hpos). set (s := sqrt (sumsq es)) in *.
      rewrite (sumR_scal_ext 2 (fun e => ev e * dv e) (fun e => 2 * ev e * dv e))
        by (intros; ring).
      rewrite (sumR_scal_ext (/ s) (fun e => ev e * dv e) (fun e => ev e / s * dv e))
        by (intros; unfold Rdiv; ring).
      field. lra.
  Qed.

  Lemma norm2_grad_sum node es :
    ev (norm2_grad node es (map g es) c0) = sumR (map (fun e => ev e / ev node * dv e) es).
  Proof. rewrite norm2_grad_ev, ev_c0, map_map, dotR_map_same. ring. Qed.

  Lemma P_frob es : Forall DerivOK es -> 0 < sumsq es -> DerivOK (Frob es).
  Proof.
    intros H Hpos. unfold DerivOK. eapply is_derive_eq; [exact (norm2_derive es H Hpos)|].
    simpl g. rewrite norm2_grad_sum. reflexivity.
  Qed.

  Lemma P_l2n k es : kind_wf k es = true -> Forall DerivOK es -> 0 < sumsq es -> DerivOK (L2n k es).
  Proof.
    intros Hk H Hpos. unfold DerivOK. eapply is_derive_eq; [exact (norm2_derive es H Hpos)|].
    destruct k as [i|]; simpl g.
    - destruct (kind_wf_KVar i es Hk) as [xs [Hes Hnd]].
      assert (Hn : ev (L2n (KVar i) es) = sqrt (sumsq es)) by reflexivity.
      set (s := sqrt (sumsq es)) in *. clearbody s. subst es.
      rewrite vec_names_map_Var, map_map.
      rewrite (sumR_ext_in _ (fun y => rho y / s * ind v y)).
      + rewrite (sum_indicator (fun y => rho y / s) v xs Hnd).
        destruct (mem_name v xs); [|apply eq_sym, ev_c0].
        rewrite s_div_ev, Hn. reflexivity.
      + intros y _. rewrite ev_grad_var. reflexivity.
    - rewrite norm2_grad_sum. reflexivity.
  Qed.

  (* --- L1Norm --- *)
  Lemma norm1_derive es : Forall DerivOK es -> Forall (fun e => ev e <> 0) es ->
    is_derive (fun t => sumR (map (fun e => Rabs (fn_of e t)) es)) x0
              (sumR (map (fun e => ev e / Rabs (ev e) * dv e) es)).
  Proof.
    intros H Hne. apply (sumR_derive es (fun e t => Rabs (fn_of e t))).
    eapply Forall_impl; [|exact (Forall_and _ _ _ H Hne)]. intros e [He Hn].
    eapply is_derive_eq.
    - apply (is_derive_Rabs (fn_of e)); [exact He|]. rewrite F_x0. exact Hn.
    - rewrite F_x0, (sign_div_abs _ Hn). reflexivity.
  Qed.

  Lemma P_l1n k es : kind_wf k es = true -> Forall DerivOK es ->
    Forall (fun e => ev e <> 0) es -> DerivOK (L1n k es).
  Proof.
    intros Hk H Hne. unfold DerivOK. eapply is_derive_eq; [exact (norm1_derive es H Hne)|].
    destruct k as [i|]; simpl g.
    - destruct (kind_wf_KVar i es Hk) as [xs [Hes Hnd]]. subst es.
      rewrite vec_names_map_Var, map_map.
      rewrite (sumR_ext_in _ (fun y => rho y / Rabs (rho y) * ind v y)).
      + rewrite (sum_indicator (fun y => rho y / Rabs (rho y)) v xs Hnd).
        destruct (mem_name v xs); [|apply eq_sym, ev_c0].
        rewrite s_div_ev. reflexivity.
      + intros y _. rewrite ev_grad_var. reflexivity.
    - rewrite norm1_grad_ev, ev_c0, map_map, dotR_map_same. ring.
  Qed.

  (* --- DotProduct --- *)
  Fixpoint dot2R (ls rs : list expr) : R :=
    match ls, rs with
    | l :: ls', r :: rs' => (ev l * dv r + ev r * dv l) + dot2R ls' rs'
    | _, _ => 0
    end.

  Lemma dot2R_cons l ls r rs :
    dot2R (l :: ls) (r :: rs) = (ev l * ev (g r) + ev r * ev (g l)) + dot2R ls rs.
  Proof. reflexivity. Qed.

  Lemma dot_derive ls rs : Forall DerivOK ls -> Forall DerivOK rs ->
    is_derive (fn_of (Dot KExpr ls KExpr rs)) x0 (dot2R ls rs).
  Proof.
    intros Hl. revert rs. induction Hl as [|l ls Hl Hls IH]; intros rs Hr.
    - change (is_derive (fun _ : R => 0) x0 0). apply is_derive_const_R.
    - destruct Hr as [|r rs Hr Hrs];
        [change (is_derive (fun _ : R => 0) x0 0); apply is_derive_const_R|].
      change (fn_of (Dot KExpr (l :: ls) KExpr (r :: rs)))
        with (fun t => fn_of l t * fn_of r t + fn_of (Dot KExpr ls KExpr rs) t).
      rewrite dot2R_cons. apply is_derive_plus_R; [|apply IH, Hrs].
      eapply is_derive_eq; [apply is_derive_mult_R; [exact Hl|exact Hr]|].
      rewrite !F_x0. ring.
  Qed.

  Lemma dot_gen_grad_ev ls rs acc :
    ev (dot_gen_grad ls rs (map g ls) (map g rs) acc) = ev acc + dot2R ls rs.
  Proof.
    revert rs acc. induction ls as [|l ls IH]; intros [|r rs] acc; simpl; try ring.
    rewrite IH, !s_add_ev, !s_mul_ev. ring.
  Qed.

  Lemma dot_vv_grad_ev xs ys acc :
    ev (dot_vv_grad v (map Var xs) (map Var ys) acc) =
    ev acc + dot2R (map Var xs) (map Var ys).
  Proof.
    revert ys acc. induction xs as [|x xs IH]; intros [|y ys] acc; simpl map;
      try (simpl; ring).
    simpl dot_vv_grad. rewrite IH, dot2R_cons, !ev_grad_var. unfold ind.
    change (ev (Var x)) with (rho x). change (ev (Var y)) with (rho y).
    destruct (String.eqb x v), (String.eqb y v); rewrite ?s_add_ev;
      change (ev (Var x)) with (rho x); change (ev (Var y)) with (rho y); ring.
  Qed.

  Lemma dot2R_same xs :
    dot2R (map Var xs) (map Var xs) = sumR (map (fun y => 2 * rho y * ind v y) xs).
  Proof.
    induction xs as [|x xs IH]; simpl map; [reflexivity|].
    rewrite dot2R_cons, IH, ev_grad_var. simpl. ring.
  Qed.

  Lemma P_dot kl ls kr rs :
    kind_wf kl ls = true -> kind_wf kr rs = true -> same_vec kl ls kr rs = true ->
    Forall DerivOK ls -> Forall DerivOK rs -> DerivOK (Dot kl ls kr rs).
  Proof.
    intros Hkl Hkr Hsame Hl Hr. unfold DerivOK.
    eapply is_derive_eq; [exact (dot_derive ls rs Hl Hr)|].
    assert (Hgen : dot2R ls rs = ev (dot_gen_grad ls rs (map g ls) (map g rs) c0))
      by (rewrite dot_gen_grad_ev, ev_c0; ring).
    destruct kl as [i|]; [|exact Hgen]. destruct kr as [j|]; [|exact Hgen].
    destruct (kind_wf_KVar i ls Hkl) as [xs [Hls Hxs]].
    destruct (kind_wf_KVar j rs Hkr) as [ys [Hrs Hys]]. subst ls rs.
    simpl g. simpl in Hsame. destruct (N.eqb i j).
    - rewrite !vec_names_map_Var in Hsame. apply list_eqb_string_eq in Hsame. subst ys.
      rewrite vec_names_map_Var, dot2R_same.
      rewrite (sum_indicator (fun y => 2 * rho y) v xs Hxs).
      destruct (mem_name v xs); [|apply eq_sym, ev_c0].
      rewrite s_mul_ev, ev_c2. reflexivity.
    - rewrite dot_vv_grad_ev, ev_c0. ring.
  Qed.

  (* --- VectorPowerSum --- *)
  Lemma Qeq_bool_minus1 p z :
    Qeq_bool p (inject_Z (z + 1)) = true -> Qeq_bool (p - 1) (inject_Z z) = true.
  Proof.
    intros H. apply Qeq_bool_iff in H. apply Qeq_bool_iff. rewrite H.
    rewrite inject_Z_plus. ring.
  Qed.

  Lemma vpow_deriv_ev p : ev (vpow_deriv p v) = Q2R p * powQ x0 (p - 1).
  Proof.
    unfold vpow_deriv. destruct (Qeq_bool p 1) eqn:E1; [|destruct (Qeq_bool p 2) eqn:E2].
    - rewrite ev_c1, (Qeq_bool_Q2R _ _ E1), Q2R_1'.
      rewrite powQ_exp0; [ring|]. apply (Qeq_bool_minus1 p 0), E1.
    - change (ev (Bin Mul c2 (Var v))) with (ev c2 * x0).
      rewrite ev_c2, (Qeq_bool_Q2R _ _ E2), Q2R_2'.
      rewrite powQ_exp1; [ring|]. apply (Qeq_bool_minus1 p 1), E2.
    - reflexivity.
  Qed.

  Lemma P_vpowsum i xs p :
    NoDup xs -> Forall (fun y => powQ_reg (rho y) p) xs -> DerivOK (VPowSum i xs p).
  Proof.
    intros Hnd Hreg. unfold DerivOK.
    eapply is_derive_eq.
    - apply (sumR_derive xs (fun y t => powQ (upd rho v t y) p)
                         (fun y => Q2R p * powQ (rho y) (p - 1) * ind v y)).
      eapply Forall_impl; [|exact Hreg]. intros y Hy.
      eapply is_derive_eq.
      + apply (is_derive_comp_R (fun t => powQ t p) (fun t => upd rho v t y));
          [|apply upd_derive].
        apply powQ_derive. rewrite upd_same_pt. exact Hy.
      + rewrite upd_same_pt. ring.
    - rewrite (sum_indicator (fun y => Q2R p * powQ (rho y) (p - 1)) v xs Hnd).
      simpl g. destruct (mem_name v xs); [|apply eq_sym, ev_c0].
      symmetry. apply vpow_deriv_ev.
  Qed.

  (* --- VectorUnarySum --- *)
  Lemma vunary_deriv_ev o :
    vun_ok o = true ->
    ev (match vunary_deriv o v with Some d => d | None => c0 end) = uop_d o x0.
  Proof.
    destruct o; try discriminate; intros _; simpl;
      rewrite ?Q2R_1', ?Q2R_2', ?Q2R_m1'; try reflexivity; try ring.
    - rewrite (powQ_exp2 (cos x0) 2) by reflexivity. reflexivity.
    - rewrite (powQ_exp2 (tanh x0) 2) by reflexivity. reflexivity.
  Qed.

  Lemma P_vunsum i xs o :
    vun_ok o = true -> NoDup xs -> Forall (fun y => uop_reg o (rho y)) xs ->
    DerivOK (VUnSum i xs o).
  Proof.
    intros Ho Hnd Hreg. unfold DerivOK.
    eapply is_derive_eq.
    - apply (sumR_derive xs (fun y t => uopR o (upd rho v t y))
                         (fun y => uop_d o (rho y) * ind v y)).
      eapply Forall_impl; [|exact Hreg]. intros y Hy.
      eapply is_derive_eq.
      + apply (is_derive_comp_R (uopR o) (fun t => upd rho v t y)); [|apply upd_derive].
        apply uop_derive. rewrite upd_same_pt. exact Hy.
      + rewrite upd_same_pt. ring.
    - rewrite (sum_indicator (fun y => uop_d o (rho y)) v xs Hnd).
      simpl g. destruct (mem_name v xs); [|apply eq_sym, ev_c0].
      symmetry. apply vunary_deriv_ev, Ho.
  Qed.

  (* --- QuadraticForm --- *)
  Notation hrow es m i :=
    (bigsum (length es) (fun j => (qa m i j + qa m j i) * nth j (map ev es) 0)).
  Notation QD es m :=
    (bigsum (length es) (fun i => hrow es m i * nth i (map dv es) 0)).

  Lemma qform_derive k es m : Forall DerivOK es -> is_derive (fn_of (QForm k es m)) x0 (QD es m).
  Proof.
    intros H. eapply is_derive_eq.
    - apply (dotR_derive es m fn_of (fun row t => matvec_row row (map (fun e => fn_of e t) es))
                         dv (fun row => matvec_row row (map dv es)) x0 H).
      apply Forall_forall. intros row _. unfold matvec_row.
      exact (dotR_const_derive (map Q2R row) es fn_of dv x0 H).
    - cbv beta. unfold fn_of. rewrite upd_same.
      apply (qform_identity m (map ev es) (map dv es)); rewrite map_length; reflexivity.
  Qed.

  Lemma qf_fold_ev l acc :
    ev (fold_left (fun acc (jc : expr * Q) =>
                     let '(ej, c) := jc in
                     if Qeq_bool c 0 then acc else s_add acc (s_mul (Const c) ej)) l acc) =
    ev acc + sumR (map (fun jc => Q2R (snd jc) * ev (fst jc)) l).
  Proof.
    revert acc. induction l as [|[ej c] l IH]; intros acc; simpl; [ring|].
    rewrite IH. destruct (Qeq_bool c 0) eqn:E.
    - rewrite (Qeq_bool_Q2R _ _ E), Q2R_0'. ring.
    - rewrite s_add_ev, s_mul_ev. simpl. ring.
  Qed.

  Lemma combine_dot es (cs : list Q) :
    sumR (map (fun jc => Q2R (snd jc) * ev (fst jc)) (combine es cs)) =
    dotR (map Q2R cs) (map ev es).
  Proof.
    revert cs. induction es as [|e es IH]; intros [|c cs]; simpl; try reflexivity.
    now rewrite IH.
  Qed.

  Lemma qrow_ev es m i :
    dotR (map Q2R (qsym_row m i (length es))) (map ev es) = hrow es m i.
  Proof.
    rewrite dotR_bigsum_r, map_length. apply bigsum_ext. intros j Hj. f_equal.
    rewrite nth_map_Q2R. unfold qsym_row. rewrite nth_map_seq by exact Hj.
    unfold qsym, qa. apply Q2R_plus.
  Qed.

  Lemma qf_row_ev es m i : ev (qf_row es m i) = hrow es m i.
  Proof.
    unfold qf_row. rewrite qf_fold_ev, ev_c0, combine_dot, qrow_ev. ring.
  Qed.

  Lemma qform_grad_ev es m des i acc :
    ev (qform_grad es m des i acc) =
    ev acc + dotR (map (fun k => ev (qf_row es m k)) (seq i (length des))) (map ev des).
  Proof.
    revert i acc. induction des as [|d des IH]; intros i acc; simpl; [ring|].
    rewrite IH, s_add_ev, s_mul_ev. ring.
  Qed.

  Lemma index_of_ge xs k i :
    index_of v (map Var xs) k = Some i -> (k <= i < k + length xs)%nat.
  Proof.
    revert k. induction xs as [|y xs IH]; intros k; simpl; [discriminate|].
    destruct (String.eqb y v).
    - intros H. inversion H. lia.
    - intros H. apply IH in H. lia.
  Qed.

  Lemma index_of_none xs k : index_of v (map Var xs) k = None -> ~ In v xs.
  Proof.
    revert k. induction xs as [|y xs IH]; intros k; simpl; [tauto|].
    destruct (String.eqb y v) eqn:E; [discriminate|].
    intros H [Hy|Hin].
    - subst y. rewrite String.eqb_refl in E. discriminate.
    - exact (IH _ H Hin).
  Qed.

  Lemma nth_ind_zero xs j : ~ In v xs -> nth j (map (ind v) xs) 0 = 0.
  Proof.
    revert j. induction xs as [|y xs IH]; intros [|j] Hn; simpl; try reflexivity.
    - unfold ind. destruct (String.eqb y v) eqn:E; [|reflexivity].
      apply String.eqb_eq in E. exfalso. apply Hn. now left.
    - apply IH. intros H. apply Hn. now right.
  Qed.

  Lemma index_of_onehot xs k i :
    NoDup xs -> index_of v (map Var xs) k = Some i ->
    forall j, nth j (map (ind v) xs) 0 = if Nat.eqb (k + j) i then 1 else 0.
  Proof.
    intros Hnd. revert k. induction Hnd as [|y xs Hy Hxs IH]; intros k; simpl;
      [discriminate|].
    destruct (String.eqb y v) eqn:E; intros H j.
    - inversion H. subst i. apply String.eqb_eq in E. subst y. destruct j as [|j].
      + rewrite Nat.add_0_r, Nat.eqb_refl. unfold ind. now rewrite String.eqb_refl.
      + rewrite nth_ind_zero by exact Hy.
        replace (Nat.eqb (k + S j) k) with false; [reflexivity|].
        symmetry. apply Nat.eqb_neq. lia.
    - destruct j as [|j].
      + apply index_of_ge in H. unfold ind. rewrite E.
        replace (Nat.eqb (k + 0) i) with false; [reflexivity|].
        symmetry. apply Nat.eqb_neq. lia.
      + rewrite (IH (S k) H j). rewrite Nat.add_succ_r. reflexivity.
  Qed.

  Lemma P_qform k es m : kind_wf k es = true -> Forall DerivOK es -> DerivOK (QForm k es m).
  Proof.
    intros Hk H. unfold DerivOK. eapply is_derive_eq; [exact (qform_derive k es m H)|].
    destruct k as [i0|]; simpl g.
    - destruct (kind_wf_KVar i0 es Hk) as [xs [Hes Hnd]].
      destruct (index_of v es 0) as [i|] eqn:E.
      + change (ev (LinComb (qsym_row m i (length es)) (KVar i0) es))
          with (dotR (map Q2R (qsym_row m i (length es))) (map ev es)).
        rewrite qrow_ev. rewrite Hes in E.
        assert (Hi : (i < length es)%nat).
        { apply index_of_ge in E. rewrite Hes, map_length. lia. }
        rewrite <- (bigsum_onehot (length es) i (fun i => hrow es m i) Hi).
        apply bigsum_ext. intros i' Hi'. f_equal.
        rewrite Hes, dv_map_Var. apply (index_of_onehot xs 0 i Hnd E).
      + rewrite ev_c0. apply bigsum_zero. intros i' Hi'.
        rewrite Hes in E. apply index_of_none in E.
        rewrite Hes at 2. rewrite dv_map_Var, nth_ind_zero by exact E. ring.
    - rewrite qform_grad_ev, ev_c0, map_length, map_map, dotR_bigsum_r, map_length.
      rewrite Rplus_0_l. apply bigsum_ext. intros i Hi.
      rewrite nth_map_seq by exact Hi. rewrite qf_row_ev. reflexivity.
  Qed.

  (* ---------------------------------------------------------------- *)
  (** ** The main induction *)

  Definition Hyp (e : expr) : Prop :=
    wf e = true -> exact_ops e = true -> dot_same_ok e = true ->
    regular rho penv e -> DerivOK e.

  Lemma Forall_Hyp es :
    Forall Hyp es -> forallb wf es = true -> forallb exact_ops es = true ->
    forallb dot_same_ok es = true -> Forall (regular rho penv) es -> Forall DerivOK es.
  Proof.
    induction 1 as [|e es He Hes IH]; simpl; intros Hw Hx Hd Hr; [constructor|].
    apply andb_true_iff in Hw. apply andb_true_iff in Hx. apply andb_true_iff in Hd.
    destruct Hw as [Hw1 Hw2]. destruct Hx as [Hx1 Hx2]. destruct Hd as [Hd1 Hd2].
    inversion Hr; subst. constructor; [apply He; assumption|apply IH; assumption].
  Qed.

  Ltac split_andb :=
    repeat match goal with
           | H : _ && _ = true |- _ => apply andb_true_iff in H; destruct H
           end.

  Lemma grad_correct_aux e : Hyp e.
  Proof.
    pattern e; apply expr_ind_strong; clear e; unfold Hyp;
      [intros q|intros x|intros p|intros o l r IHl IHr|intros o a IHa|intros i xs
      |intros cs k es IH|intros kl ls kr rs IHls IHrs
      |intros k es IH|intros k es IH|intros k es m IH|intros i xs p|intros i xs o
      |intros es IH|intros b es IH|intros es IH]; intros Hw Hx Hd Hr.
    - apply P_const.
    - apply P_var.
    - apply P_param.
    - simpl in Hw, Hx, Hd. split_andb.
      apply regular_bin in Hr. destruct Hr as [Hr1 [Hr2 Hr3]].
      apply P_bin; auto.
    - simpl in Hw, Hx, Hd. split_andb. destruct Hr as [Hr1 Hr2]. apply P_un; auto.
    - simpl in Hw. split_andb. apply P_vsum. now apply NoDupb_NoDup.
    - simpl in Hw, Hx, Hd, Hr. split_andb. apply fold_and_Forall in Hr.
      apply P_lincomb; [assumption|]. apply Forall_Hyp; assumption.
    - simpl in Hw, Hx, Hd, Hr. split_andb. destruct Hr as [Hr1 Hr2].
      apply fold_and_Forall in Hr1. apply fold_and_Forall in Hr2.
      apply P_dot; try assumption; apply Forall_Hyp; assumption.
    - simpl in Hw, Hx, Hd, Hr. split_andb. destruct Hr as [Hr1 Hr2].
      apply fold_and_Forall in Hr1.
      apply P_l2n; try assumption. apply Forall_Hyp; assumption.
    - simpl in Hw, Hx, Hd, Hr. split_andb.
      apply (fold_and_Forall (fun e => regular rho penv e /\ ev e <> 0)) in Hr.
      apply P_l1n; try assumption.
      + apply Forall_Hyp; try assumption.
        eapply Forall_impl; [|exact Hr]. intros a [Ha _]. exact Ha.
      + eapply Forall_impl; [|exact Hr]. intros a [_ Ha]. exact Ha.
    - simpl in Hw, Hx, Hd, Hr. split_andb. apply fold_and_Forall in Hr.
      apply P_qform; [assumption|]. apply Forall_Hyp; assumption.
    - simpl in Hw, Hr.
      apply (fold_and_Forall (fun y => powQ_reg (rho y) p)) in Hr.
      apply P_vpowsum; [now apply NoDupb_NoDup|exact Hr].
    - simpl in Hw, Hx, Hr.
      apply (fold_and_Forall (fun y => uop_reg o (rho y))) in Hr.
      apply P_vunsum; [exact Hx|now apply NoDupb_NoDup|exact Hr].
    - simpl in Hw, Hx, Hd, Hr. apply fold_and_Forall in Hr.
      apply P_vexprsum. apply Forall_Hyp; assumption.
    - simpl in Hw, Hx, Hd, Hr. split_andb. apply fold_and_Forall in Hr.
      apply P_msum. apply Forall_Hyp; assumption.
    - simpl in Hw, Hx, Hd, Hr. split_andb. destruct Hr as [Hr1 Hr2].
      apply fold_and_Forall in Hr1.
      apply P_frob; [|assumption]. apply Forall_Hyp; assumption.
  Qed.
(*VEC*)
End Correct.

(** * C02, main theorem *)
Theorem grad_correct : forall ln2c ln10c e v rho penv,
  wf e = true -> exact_ops e = true -> dot_same_ok e = true -> regular rho penv e ->
  is_derive (fun t : R => evalR (upd rho v t) penv e) (rho v)
            (evalR rho penv (grad ln2c ln10c v e)).
Proof.
  intros ln2c ln10c e v rho penv Hw Hx Hd Hr.
  exact (grad_correct_aux ln2c ln10c v rho penv e Hw Hx Hd Hr).
Qed.

Theorem grad_correct_scalar : forall ln2c ln10c e v rho penv,
  scalar_only e = true -> exact_ops e = true -> regular rho penv e ->
  is_derive (fun t : R => evalR (upd rho v t) penv e) (rho v)
            (evalR rho penv (grad ln2c ln10c v e)).
Proof.
  intros ln2c ln10c e v rho penv Hs Hx Hr.
  exact (grad_correct_scalar_aux ln2c ln10c v rho penv e Hs Hx Hr).
Qed.

(* ------------------------------------------------------------------ *)
(** * Absent variables: the gradient is the literal 0 *)

Lemma s_mul_0_r l : s_mul l c0 = c0.
Proof. unfold s_mul. simpl is_zero. now rewrite orb_true_r. Qed.

Lemma binary_grad_c0 o l r : binary_grad o l r c0 c0 = c0.
Proof.
  destruct o; try reflexivity.
  - unfold binary_grad. now rewrite !s_mul_0_r.
  - unfold binary_grad. now rewrite !s_mul_0_r.
  - unfold binary_grad. destruct r; rewrite ?s_mul_0_r; try reflexivity.
    destruct (Qeq_bool q 0); [reflexivity|]. destruct (Qeq_bool q 1); reflexivity.
Qed.

Lemma unary_grad_c0 ln2c ln10c o a : unary_grad ln2c ln10c o a c0 = c0.
Proof. destruct o; unfold unary_grad; rewrite ?s_mul_0_r; reflexivity. Qed.

Lemma existsb_false_Forall {A} (f : A -> bool) l :
  existsb f l = false -> Forall (fun a => f a = false) l.
Proof.
  induction l as [|a l IH]; simpl; intros H; [constructor|].
  apply orb_false_iff in H. destruct H as [H1 H2]. constructor; auto.
Qed.

Lemma map_all_c0 (gr : expr -> expr) es :
  Forall (fun e => gr e = c0) es -> map gr es = map (fun _ => c0) es.
Proof. intros H. now apply map_ext_Forall'. Qed.

Lemma sum_grad_c0 {A} (es : list A) : sum_grad (map (fun _ => c0) es) c0 = c0.
Proof. induction es as [|e es IH]; simpl; [reflexivity|exact IH]. Qed.

Lemma lincomb_grad_c0 {A} cs (es : list A) : lincomb_grad cs (map (fun _ => c0) es) c0 = c0.
Proof.
  revert cs. induction es as [|e es IH]; intros [|c cs]; simpl; try reflexivity.
  rewrite s_mul_0_r. apply IH.
Qed.

Lemma norm2_grad_c0 node es : norm2_grad node es (map (fun _ => c0) es) c0 = c0.
Proof.
  induction es as [|e es IH]; simpl; [reflexivity|]. rewrite s_mul_0_r. exact IH.
Qed.

Lemma norm1_grad_c0 es : norm1_grad es (map (fun _ => c0) es) c0 = c0.
Proof.
  induction es as [|e es IH]; simpl; [reflexivity|]. rewrite s_mul_0_r. exact IH.
Qed.

Lemma dot_gen_grad_c0 ls rs :
  dot_gen_grad ls rs (map (fun _ => c0) ls) (map (fun _ => c0) rs) c0 = c0.
Proof.
  revert rs. induction ls as [|l ls IH]; intros [|r rs]; simpl; try reflexivity.
  rewrite !s_mul_0_r. apply IH.
Qed.

Lemma qform_grad_c0 {A} es m (l : list A) i : qform_grad es m (map (fun _ => c0) l) i c0 = c0.
Proof.
  revert i. induction l as [|a l IH]; intros i; simpl; [reflexivity|].
  rewrite s_mul_0_r. apply IH.
Qed.

Section Absent.
  Variables ln2c ln10c : Q.
  Variable v : string.
  Notation g := (grad ln2c ln10c v).

  Lemma no_var_names es :
    existsb (mentions v) es = false -> mem_name v (vec_names es) = false.
  Proof.
    induction es as [|e es IH]; simpl; intros H; [reflexivity|].
    apply orb_false_iff in H. destruct H as [H1 H2]. specialize (IH H2).
    destruct e; simpl; try exact IH. simpl in H1.
    rewrite String.eqb_sym, H1. exact IH.
  Qed.

  Lemma first_coeff_absent cs es :
    existsb (mentions v) es = false -> first_coeff v cs es = c0.
  Proof.
    revert cs. induction es as [|e es IH]; intros [|c cs] H; simpl; try reflexivity.
    simpl in H. apply orb_false_iff in H. destruct H as [H1 H2].
    destruct e; try (apply IH; exact H2). simpl in H1. rewrite H1. apply IH, H2.
  Qed.

  Lemma index_of_absent es k :
    existsb (mentions v) es = false -> index_of v es k = None.
  Proof.
    revert k. induction es as [|e es IH]; intros k H; simpl; [reflexivity|].
    simpl in H. apply orb_false_iff in H. destruct H as [H1 H2].
    destruct e; try (apply IH; exact H2). simpl in H1. rewrite H1. apply IH, H2.
  Qed.

  Lemma dot_vv_grad_absent ls rs acc :
    existsb (mentions v) ls = false -> existsb (mentions v) rs = false ->
    dot_vv_grad v ls rs acc = acc.
  Proof.
    revert rs acc. induction ls as [|l ls IH]; intros [|r rs] acc Hl Hr; simpl;
      try reflexivity.
    simpl in Hl, Hr. apply orb_false_iff in Hl. apply orb_false_iff in Hr.
    destruct Hl as [Hl1 Hl2]. destruct Hr as [Hr1 Hr2].
    assert (E1 : match l with
                 | Var x => if String.eqb x v then s_add acc r else acc
                 | _ => acc end = acc).
    { destruct l; try reflexivity. simpl in Hl1. now rewrite Hl1. }
    rewrite E1.
    assert (E2 : match r with
                 | Var y => if String.eqb y v then s_add acc l else acc
                 | _ => acc end = acc).
    { destruct r; try reflexivity. simpl in Hr1. now rewrite Hr1. }
    rewrite E2. apply IH; assumption.
  Qed.

  Lemma Forall_absent es :
    Forall (fun e => mentions v e = false -> g e = c0) es ->
    existsb (mentions v) es = false -> map g es = map (fun _ => c0) es.
  Proof.
    intros IH H. apply map_all_c0. apply existsb_false_Forall in H.
    exact (Forall_mp _ _ _ IH H).
  Qed.

  Theorem grad_absent_aux e : mentions v e = false -> g e = c0.
  Proof.
    pattern e; apply expr_ind_strong; clear e;
      [intros q|intros x|intros p|intros o l r IHl IHr|intros o a IHa|intros i xs
      |intros cs k es IH|intros kl ls kr rs IHls IHrs
      |intros k es IH|intros k es IH|intros k es m IH|intros i xs p|intros i xs o
      |intros es IH|intros b es IH|intros es IH]; simpl mentions; intros H.
    - reflexivity.
    - simpl. now rewrite H.
    - reflexivity.
    - apply orb_false_iff in H. destruct H as [H1 H2].
      change (g (Bin o l r)) with (binary_grad o l r (g l) (g r)).
      rewrite (IHl H1), (IHr H2). apply binary_grad_c0.
    - change (g (Un o a)) with (unary_grad ln2c ln10c o a (g a)).
      rewrite (IHa H). apply unary_grad_c0.
    - simpl. now rewrite H.
    - destruct k; simpl.
      + now apply first_coeff_absent.
      + rewrite (Forall_absent es IH H). apply lincomb_grad_c0.
    - apply orb_false_iff in H. destruct H as [H1 H2].
      simpl. rewrite (Forall_absent ls IHls H1), (Forall_absent rs IHrs H2).
      destruct kl as [i|], kr as [j|]; try apply dot_gen_grad_c0.
      destruct (N.eqb i j).
      + now rewrite (no_var_names ls H1).
      + now apply dot_vv_grad_absent.
    - destruct k; simpl.
      + now rewrite (no_var_names es H).
      + rewrite (Forall_absent es IH H). apply norm2_grad_c0.
    - destruct k; simpl.
      + now rewrite (no_var_names es H).
      + rewrite (Forall_absent es IH H). apply norm1_grad_c0.
    - destruct k; simpl.
      + now rewrite (index_of_absent es 0 H).
      + rewrite (Forall_absent es IH H). apply qform_grad_c0.
    - simpl. now rewrite H.
    - simpl. now rewrite H.
    - simpl. rewrite (Forall_absent es IH H). apply sum_grad_c0.
    - simpl. rewrite (Forall_absent es IH H). apply sum_grad_c0.
    - simpl. rewrite (Forall_absent es IH H). apply norm2_grad_c0.
  Qed.
End Absent.

(** * C02, second theorem: syntactic zero for variables that do not occur *)
Theorem grad_absent : forall ln2c ln10c e v,
  mentions v e = false -> grad ln2c ln10c v e = Const 0%Q.
Proof. intros ln2c ln10c e v H. exact (grad_absent_aux ln2c ln10c v e H). Qed.

(* ------------------------------------------------------------------ *)
(** * Closure of structural predicates under differentiation
      (needed to iterate [grad], e.g. for Hessians) *)

Definition elems (e : expr) : list expr :=
  match e with
  | LinComb _ _ es | L2n _ es | L1n _ es | QForm _ es _ | VExprSum es | MSum _ es
  | Frob es => es
  | Dot _ ls _ rs => ls ++ rs
  | _ => []
  end.

Section Closed.
  Variables ln2c ln10c : Q.
  Variable v : string.
  Notation g := (grad ln2c ln10c v).

  (* a compositional boolean predicate on trees *)
  Variable pr : expr -> bool.
  Hypothesis pr_const : forall q, pr (Const q) = true.
  Hypothesis pr_var : forall x, pr (Var x) = true.
  Hypothesis pr_bin : forall o l r, pr (Bin o l r) = pr l && pr r.
  Hypothesis pr_un_intro :
    forall o a, uop_exact o = true -> pr a = true -> pr (Un o a) = true.
  Hypothesis pr_un_elim : forall o a, pr (Un o a) = true -> pr a = true.
  Hypothesis pr_elems : forall e, pr e = true -> forallb pr (elems e) = true.
  Hypothesis pr_qform_lincomb :
    forall k es m i, pr (QForm k es m) = true ->
                     pr (LinComb (qsym_row m i (length es)) k es) = true.

  Lemma pr_Bin o l r : pr l = true -> pr r = true -> pr (Bin o l r) = true.
  Proof. intros Hl Hr. now rewrite pr_bin, Hl, Hr. Qed.

  Lemma pr_s_add l r : pr l = true -> pr r = true -> pr (s_add l r) = true.
  Proof.
    intros Hl Hr. unfold s_add. destruct (is_zero l); [exact Hr|].
    destruct (is_zero r); [exact Hl|]. now apply pr_Bin.
  Qed.

  Lemma pr_s_neg e : pr e = true -> pr (s_neg e) = true.
  Proof.
    intros He. unfold s_neg. destruct (is_zero e); [apply pr_const|].
    destruct e; try (apply pr_un_intro; [reflexivity|exact He]).
    destruct o; try (apply pr_un_intro; [reflexivity|exact He]).
    exact (pr_un_elim _ _ He).
  Qed.

  Lemma pr_s_sub l r : pr l = true -> pr r = true -> pr (s_sub l r) = true.
  Proof.
    intros Hl Hr. unfold s_sub. destruct (is_zero r); [exact Hl|].
    destruct (is_zero l); [now apply pr_s_neg|]. now apply pr_Bin.
  Qed.

  Lemma pr_s_mul l r : pr l = true -> pr r = true -> pr (s_mul l r) = true.
  Proof.
    intros Hl Hr. unfold s_mul. destruct (is_zero l || is_zero r); [apply pr_const|].
    destruct (is_one l); [exact Hr|]. destruct (is_one r); [exact Hl|]. now apply pr_Bin.
  Qed.

  Lemma pr_s_div l r : pr l = true -> pr r = true -> pr (s_div l r) = true.
  Proof.
    intros Hl Hr. unfold s_div. destruct (is_zero l); [apply pr_const|].
    destruct (is_one r); [exact Hl|]. now apply pr_Bin.
  Qed.

  Lemma pr_s_pow b q : pr b = true -> pr (s_pow b (Const q)) = true.
  Proof.
    intros Hb. unfold s_pow. destruct (is_zero (Const q)); [apply pr_const|].
    destruct (is_one (Const q)); [exact Hb|]. destruct (is_zero b); [apply pr_const|].
    destruct (is_one b); [apply pr_const|]. apply pr_Bin; [exact Hb|apply pr_const].
  Qed.

  Ltac pr_tac :=
    repeat first
           [ assumption
           | apply pr_const
           | apply pr_var
           | apply pr_s_add
           | apply pr_s_sub
           | apply pr_s_mul
           | apply pr_s_div
           | apply pr_s_neg
           | apply pr_s_pow
           | apply pr_Bin
           | (apply pr_un_intro; [reflexivity|]) ].

  Lemma pr_unary_grad o a da :
    pr (Un o a) = true -> pr da = true -> pr (unary_grad ln2c ln10c o a da) = true.
  Proof.
    intros He Hd. assert (Ha := pr_un_elim _ _ He).
    destruct o; unfold unary_grad; pr_tac.
  Qed.

  Lemma pr_binary_grad o l r dl dr :
    pr l = true -> pr r = true -> pr dl = true -> pr dr = true ->
    pr (binary_grad o l r dl dr) = true.
  Proof.
    intros Hl Hr Hdl Hdr. destruct o; unfold binary_grad; try (pr_tac; fail).
    destruct r; try (pr_tac; fail).
    destruct (Qeq_bool q 0); [apply pr_const|].
    destruct (Qeq_bool q 1); [exact Hdl|]. pr_tac.
  Qed.

  Lemma pr_sum_grad des acc :
    forallb pr des = true -> pr acc = true -> pr (sum_grad des acc) = true.
  Proof.
    revert acc. induction des as [|d des IH]; simpl; intros acc Hd Ha; [exact Ha|].
    apply andb_true_iff in Hd. destruct Hd as [Hd1 Hd2]. apply IH; pr_tac.
  Qed.

  Lemma pr_lincomb_grad cs des acc :
    forallb pr des = true -> pr acc = true -> pr (lincomb_grad cs des acc) = true.
  Proof.
    revert des acc. induction cs as [|c cs IH]; intros [|d des] acc Hd Ha; simpl;
      try exact Ha.
    simpl in Hd. apply andb_true_iff in Hd. destruct Hd as [Hd1 Hd2]. apply IH; pr_tac.
  Qed.

  Lemma pr_norm2_grad node es des acc :
    pr node = true -> forallb pr es = true -> forallb pr des = true -> pr acc = true ->
    pr (norm2_grad node es des acc) = true.
  Proof.
    intros Hn. revert des acc. induction es as [|a es IH]; intros [|d des] acc He Hd Ha;
      simpl; try exact Ha.
    simpl in He, Hd. apply andb_true_iff in He. apply andb_true_iff in Hd.
    destruct He as [He1 He2]. destruct Hd as [Hd1 Hd2]. apply IH; pr_tac.
  Qed.

  Lemma pr_norm1_grad es des acc :
    forallb pr es = true -> forallb pr des = true -> pr acc = true ->
    pr (norm1_grad es des acc) = true.
  Proof.
    revert des acc. induction es as [|a es IH]; intros [|d des] acc He Hd Ha;
      simpl; try exact Ha.
    simpl in He, Hd. apply andb_true_iff in He. apply andb_true_iff in Hd.
    destruct He as [He1 He2]. destruct Hd as [Hd1 Hd2]. apply IH; pr_tac.
  Qed.

  Lemma pr_dot_vv_grad ls rs acc :
    forallb pr ls = true -> forallb pr rs = true -> pr acc = true ->
    pr (dot_vv_grad v ls rs acc) = true.
  Proof.
    revert rs acc. induction ls as [|l ls IH]; intros [|r rs] acc Hl Hr Ha;
      simpl; try exact Ha.
    simpl in Hl, Hr. apply andb_true_iff in Hl. apply andb_true_iff in Hr.
    destruct Hl as [Hl1 Hl2]. destruct Hr as [Hr1 Hr2]. apply IH; try assumption.
    assert (H1 : pr match l with
                    | Var x => if String.eqb x v then s_add acc r else acc
                    | _ => acc end = true).
    { destruct l; try exact Ha. destruct (String.eqb x v); pr_tac. }
    destruct r; try exact H1. destruct (String.eqb x v); pr_tac.
  Qed.

  Lemma pr_dot_gen_grad ls rs dls drs acc :
    forallb pr ls = true -> forallb pr rs = true ->
    forallb pr dls = true -> forallb pr drs = true -> pr acc = true ->
    pr (dot_gen_grad ls rs dls drs acc) = true.
  Proof.
    revert rs dls drs acc.
    induction ls as [|l ls IH]; intros [|r rs] [|dl dls] [|dr drs] acc Hl Hr Hdl Hdr Ha;
      simpl; try exact Ha.
    simpl in Hl, Hr, Hdl, Hdr.
    apply andb_true_iff in Hl. apply andb_true_iff in Hr.
    apply andb_true_iff in Hdl. apply andb_true_iff in Hdr.
    destruct Hl as [Hl1 Hl2]. destruct Hr as [Hr1 Hr2].
    destruct Hdl as [Hdl1 Hdl2]. destruct Hdr as [Hdr1 Hdr2]. apply IH; pr_tac.
  Qed.

  Lemma pr_qf_fold (l : list (expr * Q)) acc :
    forallb pr (map fst l) = true -> pr acc = true ->
    pr (fold_left (fun acc (jc : expr * Q) =>
                     let '(ej, c) := jc in
                     if Qeq_bool c 0 then acc else s_add acc (s_mul (Const c) ej)) l acc)
    = true.
  Proof.
    revert acc. induction l as [|[ej c] l IH]; simpl; intros acc Hl Ha; [exact Ha|].
    apply andb_true_iff in Hl. destruct Hl as [Hl1 Hl2]. apply IH; [exact Hl2|].
    destruct (Qeq_bool c 0); pr_tac.
  Qed.

  Lemma pr_combine_fst {B} es (cs : list B) :
    forallb pr es = true -> forallb pr (map fst (combine es cs)) = true.
  Proof.
    revert cs. induction es as [|e es IH]; intros [|c cs] H; simpl; try reflexivity.
    simpl in H. apply andb_true_iff in H. destruct H as [H1 H2].
    rewrite H1. simpl. apply IH, H2.
  Qed.

  Lemma pr_qf_row es m i : forallb pr es = true -> pr (qf_row es m i) = true.
  Proof.
    intros H. unfold qf_row. apply pr_qf_fold; [|apply pr_const].
    apply pr_combine_fst, H.
  Qed.

  Lemma pr_qform_grad es m des i acc :
    forallb pr es = true -> forallb pr des = true -> pr acc = true ->
    pr (qform_grad es m des i acc) = true.
  Proof.
    intros He. revert i acc. induction des as [|d des IH]; simpl; intros i acc Hd Ha;
      [exact Ha|].
    apply andb_true_iff in Hd. destruct Hd as [Hd1 Hd2]. apply IH; [exact Hd2|].
    pr_tac. apply pr_qf_row, He.
  Qed.

  Lemma pr_first_coeff cs es : pr (first_coeff v cs es) = true.
  Proof.
    revert cs. induction es as [|e es IH]; intros [|c cs]; simpl; try apply pr_const.
    destruct e; try apply IH. destruct (String.eqb x v); [apply pr_const|apply IH].
  Qed.

  Lemma pr_map_grad es :
    Forall (fun e => pr e = true -> pr (g e) = true) es ->
    forallb pr es = true -> forallb pr (map g es) = true.
  Proof.
    induction 1 as [|e es He Hes IH]; simpl; intros H; [reflexivity|].
    apply andb_true_iff in H. destruct H as [H1 H2]. now rewrite (He H1), (IH H2).
  Qed.

  Theorem grad_closed e : pr e = true -> pr (g e) = true.
  Proof.
    pattern e; apply expr_ind_strong; clear e;
      [intros q|intros x|intros p|intros o l r IHl IHr|intros o a IHa|intros i xs
      |intros cs k es IH|intros kl ls kr rs IHls IHrs
      |intros k es IH|intros k es IH|intros k es m IH|intros i xs p|intros i xs o
      |intros es IH|intros b es IH|intros es IH]; intros H;
      try (assert (He := pr_elems _ H); simpl elems in He).
    - apply pr_const.
    - simpl. destruct (String.eqb x v); apply pr_const.
    - apply pr_const.
    - change (g (Bin o l r)) with (binary_grad o l r (g l) (g r)).
      rewrite pr_bin in H. apply andb_true_iff in H. destruct H as [H1 H2].
      apply pr_binary_grad; auto.
    - change (g (Un o a)) with (unary_grad ln2c ln10c o a (g a)).
      apply pr_unary_grad; [exact H|]. apply IHa. exact (pr_un_elim _ _ H).
    - simpl. destruct (mem_name v xs); apply pr_const.
    - destruct k; simpl.
      + apply pr_first_coeff.
      + apply pr_lincomb_grad; [|apply pr_const]. now apply pr_map_grad.
    - rewrite forallb_app in He. apply andb_true_iff in He. destruct He as [Hl Hr].
      assert (Hgen : pr (dot_gen_grad ls rs (map g ls) (map g rs) c0) = true).
      { apply pr_dot_gen_grad; try assumption; try apply pr_const;
          now apply pr_map_grad. }
      simpl. destruct kl as [i|], kr as [j|]; try exact Hgen.
      destruct (N.eqb i j).
      + destruct (mem_name v (vec_names ls)); pr_tac.
      + apply pr_dot_vv_grad; try assumption. apply pr_const.
    - destruct k; simpl.
      + destruct (mem_name v (vec_names es)); pr_tac.
      + apply pr_norm2_grad; try assumption; try apply pr_const. now apply pr_map_grad.
    - destruct k; simpl.
      + destruct (mem_name v (vec_names es)); pr_tac.
      + apply pr_norm1_grad; try assumption; try apply pr_const. now apply pr_map_grad.
    - destruct k; simpl.
      + destruct (index_of v es 0); [|apply pr_const]. now apply pr_qform_lincomb.
      + apply pr_qform_grad; try assumption; try apply pr_const. now apply pr_map_grad.
    - simpl. destruct (mem_name v xs); [|apply pr_const]. unfold vpow_deriv.
      destruct (Qeq_bool p 1); [apply pr_const|]. destruct (Qeq_bool p 2); pr_tac.
    - simpl. destruct (mem_name v xs); [|apply pr_const].
      destruct o; simpl; pr_tac.
    - simpl. apply pr_sum_grad; [|apply pr_const]. now apply pr_map_grad.
    - simpl. apply pr_sum_grad; [|apply pr_const]. now apply pr_map_grad.
    - simpl. apply pr_norm2_grad; try assumption; try apply pr_const.
      now apply pr_map_grad.
  Qed.
End Closed.

(** * C02, third theorem: the gradient of a well-formed tree is well formed *)
Theorem grad_wf : forall ln2c ln10c v e,
  wf e = true -> wf (grad ln2c ln10c v e) = true.
Proof.
  intros ln2c ln10c v. apply (grad_closed ln2c ln10c v wf); try reflexivity.
  - intros o a _ H. exact H.
  - intros o a H. exact H.
  - intros e H. destruct e; try reflexivity; simpl in *;
      repeat (apply andb_true_iff in H; destruct H as [H ?]); try assumption.
    rewrite forallb_app. apply andb_true_iff. split; assumption.
  - intros k es m i H. simpl in *.
    repeat (apply andb_true_iff in H; destruct H as [H ?]).
    unfold qsym_row. rewrite map_length, seq_length, Nat.eqb_refl, H. simpl. assumption.
Qed.

Theorem grad_exact_ops : forall ln2c ln10c v e,
  exact_ops e = true -> exact_ops (grad ln2c ln10c v e) = true.
Proof.
  intros ln2c ln10c v. apply (grad_closed ln2c ln10c v exact_ops); try reflexivity.
  - intros o a Ho H. simpl. now rewrite Ho, H.
  - intros o a H. simpl in H. apply andb_true_iff in H. tauto.
  - intros e H. destruct e; try reflexivity; simpl in *; try assumption.
    rewrite forallb_app. exact H.
  - intros k es m i H. exact H.
Qed.

Theorem grad_dot_same_ok : forall ln2c ln10c v e,
  dot_same_ok e = true -> dot_same_ok (grad ln2c ln10c v e) = true.
Proof.
  intros ln2c ln10c v. apply (grad_closed ln2c ln10c v dot_same_ok); try reflexivity.
  - intros o a _ H. exact H.
  - intros o a H. exact H.
  - intros e H. destruct e; try reflexivity; simpl in *; try assumption.
    rewrite forallb_app. apply andb_true_iff in H. destruct H as [H H2].
    apply andb_true_iff in H. destruct H as [_ H1]. now rewrite H1, H2.
  - intros k es m i H. exact H.
Qed.

(* ------------------------------------------------------------------ *)
(** * Non-vacuity: concrete expressions at concrete regular points *)

Definition ex_rho : env :=
  fun s => if String.eqb s "x" then 1
           else if String.eqb s "y" then 3
           else if String.eqb s "a" then 3
           else if String.eqb s "b" then 4 else 0.
Definition ex_penv : env := fun _ => 0.

(* sin(x) * y^2 *)
Definition ex1 : expr :=
  Bin Mul (Un Sin (Var "x")) (Bin Pow (Var "y") (Const 2%Q)).

Example ex1_hyps :
  wf ex1 = true /\ exact_ops ex1 = true /\ dot_same_ok ex1 = true /\
  regular ex_rho ex_penv ex1.
Proof.
  repeat split; try reflexivity. unfold powQ_reg. simpl. left. discriminate.
Qed.

Example ex1_grad_x :
  grad 0%Q 0%Q "x" ex1 = Bin Mul (Bin Pow (Var "y") (Const 2%Q)) (Un Cos (Var "x")).
Proof. reflexivity. Qed.

Example ex1_grad_y :
  grad 0%Q 0%Q "y" ex1 =
  Bin Mul (Un Sin (Var "x")) (Bin Mul (Const 2%Q) (Var "y")).
Proof. reflexivity. Qed.

Example ex1_derive_y :
  is_derive (fun t : R => sin 1 * powQ t 2) 3 (sin 1 * (Q2R 2 * 3)).
Proof.
  destruct ex1_hyps as [Hw [Hx [Hd Hr]]].
  exact (grad_correct 0%Q 0%Q ex1 "y" ex_rho ex_penv Hw Hx Hd Hr).
Qed.

(* ||(a,b)||_2 + (a,b).(a,b) + (a,b)' [[1,2],[3,4]] (a,b), one VectorVariable *)
Definition ex2 : expr :=
  Bin Add (L2n (KVar 1) [Var "a"; Var "b"])
    (Bin Add (Dot (KVar 1) [Var "a"; Var "b"] (KVar 1) [Var "a"; Var "b"])
       (QForm (KVar 1) [Var "a"; Var "b"] [[1%Q; 2%Q]; [3%Q; 4%Q]])).

Example ex2_hyps :
  wf ex2 = true /\ exact_ops ex2 = true /\ dot_same_ok ex2 = true /\
  regular ex_rho ex_penv ex2.
Proof.
  repeat split; try reflexivity. simpl. unfold ex_rho, Rsqr. simpl. lra.
Qed.

Example ex2_derive_a :
  is_derive (fun t : R => evalR (upd ex_rho "a" t) ex_penv ex2) 3
            (evalR ex_rho ex_penv (grad 0%Q 0%Q "a" ex2)).
Proof.
  destruct ex2_hyps as [Hw [Hx [Hd Hr]]].
  exact (grad_correct 0%Q 0%Q ex2 "a" ex_rho ex_penv Hw Hx Hd Hr).
Qed.

Example ex2_absent : grad 0%Q 0%Q "z" ex2 = Const 0%Q.
Proof. apply grad_absent. reflexivity. Qed.

Print Assumptions grad_correct.
Print Assumptions grad_correct_scalar.
Print Assumptions grad_absent.
Print Assumptions grad_wf.
Print Assumptions grad_exact_ops.
Print Assumptions grad_dot_same_ok.
