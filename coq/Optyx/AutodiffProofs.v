(* AutodiffProofs.v — property C02: the tree returned by symbolic
   differentiation ([Autodiff.grad], the model of optyx's autodiff.py) denotes,
   at every regular point, the true partial derivative of the original
   expression ([grad_correct], Coquelicot's [is_derive] on R); it is the literal
   [Const 0] for variables that do not occur ([grad_absent]); it is again a
   well-formed tree ([grad_wf]) without inexact nodes ([grad_exact_ops]).

   Hypotheses of [grad_correct] besides [wf] and [regular]:
   - [exact_ops e]: no Log2/Log10 node (their derivative tree embeds the double
     nearest to ln 2 / ln 10, so the statement over R is only approximate), and
     every VectorUnarySum node carries one of the 10 operators the rule knows
     (optyx's VectorUnarySum constructor rejects the others; for them the rule
     returns 0).
   - [dot_same_ok e]: in every node [Dot (KVar i) ls (KVar i) rs] the two
     element lists carry the same variable names.  The harness numbers Python
     objects by identity, so equal ids mean "the same VectorVariable object";
     the code tests [left is right] and then answers 2*v. *)
From Coquelicot Require Import Coquelicot.
From Coq Require Import Reals QArith Qreals String List Bool ZArith Lia Lra.
From Optyx Require Import Syntax SemR Autodiff AutodiffLemmas.
Import ListNotations.
Close Scope Q_scope.
Open Scope R_scope.

(* ------------------------------------------------------------------ *)
(** * Side predicates *)

Definition uop_exact (o : uop) : bool :=
  match o with Log2 | Log10 => false | _ => true end.

(* the operators VectorUnarySum admits (see [vunary_deriv]) *)
Definition vun_ok (o : uop) : bool :=
  match o with
  | Sin | Cos | Exp | Log | Sqrt | Sinh | Cosh | Tanh | Tan | Abs => true
  | _ => false
  end.

Fixpoint exact_ops (e : expr) : bool :=
  match e with
  | Const _ | Var _ | Param _ => true
  | Bin _ l r => exact_ops l && exact_ops r
  | Un o a => uop_exact o && exact_ops a
  | VSum _ _ => true
  | LinComb _ _ es | L2n _ es | L1n _ es | QForm _ es _ | VExprSum es | MSum _ es
  | Frob es => forallb exact_ops es
  | Dot _ ls _ rs => forallb exact_ops ls && forallb exact_ops rs
  | VPowSum _ _ _ => true
  | VUnSum _ _ o => vun_ok o
  end.

Definition same_vec (kl : vkind) (ls : list expr) (kr : vkind) (rs : list expr) : bool :=
  match kl, kr with
  | KVar i, KVar j =>
      if N.eqb i j then list_eqb String.eqb (vec_names ls) (vec_names rs) else true
  | _, _ => true
  end.

Fixpoint dot_same_ok (e : expr) : bool :=
  match e with
  | Const _ | Var _ | Param _ | VSum _ _ | VPowSum _ _ _ | VUnSum _ _ _ => true
  | Bin _ l r => dot_same_ok l && dot_same_ok r
  | Un _ a => dot_same_ok a
  | LinComb _ _ es | L2n _ es | L1n _ es | QForm _ es _ | VExprSum es | MSum _ es
  | Frob es => forallb dot_same_ok es
  | Dot kl ls kr rs =>
      same_vec kl ls kr rs && forallb dot_same_ok ls && forallb dot_same_ok rs
  end.

(* only the scalar constructors *)
Fixpoint scalar_only (e : expr) : bool :=
  match e with
  | Const _ | Var _ | Param _ => true
  | Bin _ l r => scalar_only l && scalar_only r
  | Un _ a => scalar_only a
  | _ => false
  end.

(* v occurs in e *)
Fixpoint mentions (v : string) (e : expr) : bool :=
  match e with
  | Const _ | Param _ => false
  | Var x => String.eqb x v
  | Bin _ l r => mentions v l || mentions v r
  | Un _ a => mentions v a
  | VSum _ xs | VPowSum _ xs _ | VUnSum _ xs _ => mem_name v xs
  | LinComb _ _ es | L2n _ es | L1n _ es | QForm _ es _ | VExprSum es | MSum _ es
  | Frob es => existsb (mentions v) es
  | Dot _ ls _ rs => existsb (mentions v) ls || existsb (mentions v) rs
  end.

(* ------------------------------------------------------------------ *)
(** * Correctness of the scalar rules *)

Section Correct.
  Variables ln2c ln10c : Q.
  Variable v : string.
  Variables rho penv : env.

  Notation ev := (evalR rho penv).
  Notation g := (grad ln2c ln10c v).
  Notation x0 := (rho v).

  (* the function of the differentiation variable denoted by e *)
  Definition F (e : expr) (t : R) : R := evalR (upd rho v t) penv e.

  Definition P (e : expr) : Prop := is_derive (F e) x0 (ev (g e)).

  Lemma F_x0 e : F e x0 = ev e.
  Proof. unfold F. now rewrite upd_same. Qed.

  Lemma P_const q : P (Const q).
  Proof. unfold P. simpl. rewrite Q2R_0'. apply is_derive_const_R. Qed.

  Lemma P_param p : P (Param p).
  Proof. unfold P. simpl. rewrite Q2R_0'. apply is_derive_const_R. Qed.

  Lemma ev_grad_var y : ev (g (Var y)) = ind v y.
  Proof.
    simpl. unfold ind. destruct (String.eqb y v); [apply Q2R_1'|apply Q2R_0'].
  Qed.

  Lemma upd_derive y : is_derive (fun t => upd rho v t y) x0 (ind v y).
  Proof.
    unfold upd, ind. destruct (String.eqb y v).
    - apply is_derive_id_R.
    - apply is_derive_const_R.
  Qed.

  Lemma P_var y : P (Var y).
  Proof. unfold P. rewrite ev_grad_var. apply upd_derive. Qed.

  (* --- unary --- *)
  Lemma unary_grad_ev o a da :
    uop_exact o = true ->
    ev (unary_grad ln2c ln10c o a da) = uop_d o (ev a) * ev da.
  Proof.
    intros Ho. destruct o; try discriminate; unfold unary_grad, uop_d;
      rewrite ?s_neg_ev, ?s_mul_ev, ?s_div_ev, ?s_neg_ev, ?s_div_ev, ?s_sub_ev, ?s_add_ev,
        ?s_mul_ev, ?ev_c1, ?ev_c2; simpl; rewrite ?s_sub_ev, ?s_add_ev, ?s_mul_ev, ?ev_c1;
      try ring.
  Qed.

  Lemma P_un o a :
    uop_exact o = true -> uop_reg o (ev a) -> P a -> P (Un o a).
  Proof.
    unfold P. intros Ho Hreg Ha.
    change (F (Un o a)) with (fun t => uopR o (F a t)).
    eapply is_derive_eq.
    - apply (is_derive_comp_R (uopR o) (F a)); [|exact Ha].
      apply uop_derive. rewrite F_x0. exact Hreg.
    - rewrite F_x0. simpl g. rewrite unary_grad_ev by exact Ho. ring.
  Qed.

  (* --- binary --- *)
  Lemma is_const_inv r : is_const r = true -> exists q, r = Const q.
  Proof. destruct r; try discriminate. intros _. eexists; reflexivity. Qed.

  Lemma binary_grad_pow_gen l r dl dr :
    is_const r = false ->
    binary_grad Pow l r dl dr =
    s_mul (Bin Pow l r) (s_add (s_mul dr (Un Log l)) (s_div (s_mul r dl) l)).
  Proof. destruct r; simpl; intros H; try discriminate; reflexivity. Qed.

  Lemma F_pow_gen l r t :
    is_const r = false -> F (Bin Pow l r) t = Rpower (F l t) (F r t).
  Proof. intros H. unfold F. now apply evalR_pow_gen. Qed.

  Lemma P_pow_const l n : powQ_reg (ev l) n -> P l -> P (Bin Pow l (Const n)).
  Proof.
    unfold P. intros Hreg Hl.
    change (F (Bin Pow l (Const n))) with (fun t => powQ (F l t) n).
    simpl g. unfold binary_grad.
    destruct (Qeq_bool n 0) eqn:E0; [|destruct (Qeq_bool n 1) eqn:E1].
    - rewrite ev_c0. apply is_derive_ext with (fun _ : R => 1).
      + intros t. symmetry. now apply powQ_exp0.
      + apply is_derive_const_R.
    - apply is_derive_ext with (F l); [|exact Hl].
      intros t. symmetry. now apply powQ_exp1.
    - eapply is_derive_eq.
      + apply (is_derive_comp_R (fun t => powQ t n) (F l)); [|exact Hl].
        apply powQ_derive. rewrite F_x0. exact Hreg.
      + rewrite F_x0, !s_mul_ev, s_pow_ev; [simpl; ring|].
        intros Hz _ _. rewrite (is_zero_ev _ _ _ Hz) in Hreg.
        unfold powQ_reg in Hreg. rewrite Qis_int_minus1, Qfloor_minus1.
        destruct (Qis_int n) eqn:Hi; [|lra]. split; [reflexivity|].
        destruct Hreg as [Hreg|Hreg]; [|lra].
        assert (H0 : Qfloor' n <> 0%Z).
        { intros H. pose proof (Qint_floor_eq n 0 Hi H) as Hq.
          change (Qeq_bool n 0 = true) in Hq. congruence. }
        assert (H1 : Qfloor' n <> 1%Z).
        { intros H. pose proof (Qint_floor_eq n 1 Hi H) as Hq.
          change (Qeq_bool n 1 = true) in Hq. congruence. }
        lia.
  Qed.

  Definition bin_reg (o : bop) (l r : expr) : Prop :=
    match o with
    | Div => ev r <> 0
    | Pow => match r with
             | Const q => powQ_reg (ev l) q
             | _ => 0 < ev l
             end
    | _ => True
    end.

  Lemma P_bin o l r : bin_reg o l r -> P l -> P r -> P (Bin o l r).
  Proof.
    intros Hreg Hl Hr. destruct o.
    - unfold P in *. change (F (Bin Add l r)) with (fun t => F l t + F r t).
      simpl g. unfold binary_grad. rewrite s_add_ev.
      apply is_derive_plus_R; assumption.
    - unfold P in *. change (F (Bin Sub l r)) with (fun t => F l t - F r t).
      simpl g. unfold binary_grad. rewrite s_sub_ev.
      apply is_derive_minus_R; assumption.
    - unfold P in *. change (F (Bin Mul l r)) with (fun t => F l t * F r t).
      simpl g. unfold binary_grad. rewrite s_add_ev, !s_mul_ev.
      eapply is_derive_eq; [apply is_derive_mult_R; eassumption|].
      rewrite !F_x0. ring.
    - unfold P in *. change (F (Bin Div l r)) with (fun t => F l t / F r t).
      simpl g. unfold binary_grad. rewrite s_div_ev, s_sub_ev, !s_mul_ev.
      simpl in Hreg.
      eapply is_derive_eq; [apply is_derive_div; try eassumption|].
      + rewrite F_x0. exact Hreg.
      + rewrite !F_x0. field. exact Hreg.
    - destruct (is_const r) eqn:Ec.
      + destruct (is_const_inv r Ec) as [n ->]. apply P_pow_const; assumption.
      + assert (Hpos : 0 < ev l) by (destruct r; try discriminate; exact Hreg).
        unfold P in *.
        change (g (Bin Pow l r)) with (binary_grad Pow l r (g l) (g r)).
        rewrite binary_grad_pow_gen by exact Ec.
        apply is_derive_ext with (fun t => Rpower (F l t) (F r t)).
        * intros t. symmetry. now apply F_pow_gen.
        * eapply is_derive_eq; [apply Rpower_derive; try eassumption|].
          -- rewrite F_x0. exact Hpos.
          -- rewrite !F_x0, s_mul_ev, s_add_ev, s_div_ev, !s_mul_ev.
             rewrite evalR_pow_gen by exact Ec. simpl. ring.
  Qed.

  Lemma regular_bin o l r :
    regular rho penv (Bin o l r) ->
    regular rho penv l /\ regular rho penv r /\ bin_reg o l r.
  Proof. simpl. unfold bin_reg. tauto. Qed.

  (** ** Scalar core *)
  Theorem grad_correct_scalar_aux e :
    scalar_only e = true -> exact_ops e = true -> regular rho penv e -> P e.
  Proof.
    induction e as [q|y|p|o l IHl r IHr|o a IHa| | | | | | | | | | | ];
      try discriminate; intros Hs Hx Hr.
    - apply P_const.
    - apply P_var.
    - apply P_param.
    - simpl in Hs, Hx. apply andb_true_iff in Hs. apply andb_true_iff in Hx.
      destruct Hs as [Hs1 Hs2]. destruct Hx as [Hx1 Hx2].
      apply regular_bin in Hr. destruct Hr as [Hr1 [Hr2 Hr3]].
      apply P_bin; auto.
    - simpl in Hs, Hx. apply andb_true_iff in Hx. destruct Hx as [Hx1 Hx2].
      destruct Hr as [Hr1 Hr2]. apply P_un; auto.
  Qed.
End Correct.

Theorem grad_correct_scalar : forall ln2c ln10c e v rho penv,
  scalar_only e = true -> exact_ops e = true -> regular rho penv e ->
  is_derive (fun t : R => evalR (upd rho v t) penv e) (rho v)
            (evalR rho penv (grad ln2c ln10c v e)).
Proof.
  intros ln2c ln10c e v rho penv Hs Hx Hr.
  exact (grad_correct_scalar_aux ln2c ln10c v rho penv e Hs Hx Hr).
Qed.
