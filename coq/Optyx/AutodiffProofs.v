(* AutodiffProofs.v — property C02: the tree returned by symbolic
   differentiation ([Autodiff.grad], the model of optyx's autodiff.py) denotes,
   at every regular point, the true partial derivative of the original
   expression ([grad_correct], Coquelicot's [is_derive] on R); it is the literal
   [Const 0] for variables that do not occur ([grad_absent]); it is again a
   well-formed tree ([grad_wf]) without inexact nodes ([grad_exact_ops]).

   Hypotheses of [grad_correct] besides [wf] and [regular]:
   - [exact_ops e]: no Log2/Log10 node (their derivative tree embeds the double
     nearest to ln 2 / ln 10, so the statement over R is only approximate), and
     every VectorUnarySum node carries one of the 10 operators the rule knows
     (optyx's VectorUnarySum constructor rejects the others; for them the rule
     returns 0).
   - [dot_same_ok e]: in every node [Dot (KVar i) ls (KVar i) rs] the two
     element lists carry the same variable names.  The harness numbers Python
     objects by identity, so equal ids mean "the same VectorVariable object";
     the code tests [left is right] and then answers 2*v. *)
From Coquelicot Require Import Coquelicot.
From Coq Require Import Reals QArith Qreals String List Bool ZArith Lia Lra.
From Optyx Require Import Syntax SemR Autodiff AutodiffLemmas.
Import ListNotations.
Close Scope Q_scope.
Open Scope R_scope.

(* ------------------------------------------------------------------ *)
(** * Side predicates *)

Definition uop_exact (o : uop) : bool :=
  match o with Log2 | Log10 => false | _ => true end.

(* the operators VectorUnarySum admits (see [vunary_deriv]) *)
Definition vun_ok (o : uop) : bool :=
  match o with
  | Sin | Cos | Exp | Log | Sqrt | Sinh | Cosh | Tanh | Tan | Abs => true
  | _ => false
  end.

Fixpoint exact_ops (e : expr) : bool :=
  match e with
  | Const _ | Var _ | Param _ => true
  | Bin _ l r => exact_ops l && exact_ops r
  | Un o a => uop_exact o && exact_ops a
  | VSum _ _ => true
  | LinComb _ _ es | L2n _ es | L1n _ es | QForm _ es _ | VExprSum es | MSum _ es
  | Frob es => forallb exact_ops es
  | Dot _ ls _ rs => forallb exact_ops ls && forallb exact_ops rs
  | VPowSum _ _ _ => true
  | VUnSum _ _ o => vun_ok o
  end.

Definition same_vec (kl : vkind) (ls : list expr) (kr : vkind) (rs : list expr) : bool :=
  match kl, kr with
  | KVar i, KVar j =>
      if N.eqb i j then list_eqb String.eqb (vec_names ls) (vec_names rs) else true
  | _, _ => true
  end.

Fixpoint dot_same_ok (e : expr) : bool :=
  match e with
  | Const _ | Var _ | Param _ | VSum _ _ | VPowSum _ _ _ | VUnSum _ _ _ => true
  | Bin _ l r => dot_same_ok l && dot_same_ok r
  | Un _ a => dot_same_ok a
  | LinComb _ _ es | L2n _ es | L1n _ es | QForm _ es _ | VExprSum es | MSum _ es
  | Frob es => forallb dot_same_ok es
  | Dot kl ls kr rs =>
      same_vec kl ls kr rs && forallb dot_same_ok ls && forallb dot_same_ok rs
  end.

(* only the scalar constructors *)
Fixpoint scalar_only (e : expr) : bool :=
  match e with
  | Const _ | Var _ | Param _ => true
  | Bin _ l r => scalar_only l && scalar_only r
  | Un _ a => scalar_only a
  | _ => false
  end.

(* v occurs in e *)
Fixpoint mentions (v : string) (e : expr) : bool :=
  match e with
  | Const _ | Param _ => false
  | Var x => String.eqb x v
  | Bin _ l r => mentions v l || mentions v r
  | Un _ a => mentions v a
  | VSum _ xs | VPowSum _ xs _ | VUnSum _ xs _ => mem_name v xs
  | LinComb _ _ es | L2n _ es | L1n _ es | QForm _ es _ | VExprSum es | MSum _ es
  | Frob es => existsb (mentions v) es
  | Dot _ ls _ rs => existsb (mentions v) ls || existsb (mentions v) rs
  end.

(* ------------------------------------------------------------------ *)
(** * Correctness of the scalar rules *)

Section Correct.
  Variables ln2c ln10c : Q.
  Variable v : string.
  Variables rho penv : env.

  Notation ev := (evalR rho penv).
  Notation g := (grad ln2c ln10c v).
  Notation x0 := (rho v).

  (* the function of the differentiation variable denoted by e *)
  Definition F (e : expr) (t : R) : R := evalR (upd rho v t) penv e.

  Definition P (e : expr) : Prop := is_derive (F e) x0 (ev (g e)).

  Lemma F_x0 e : F e x0 = ev e.
  Proof. unfold F. now rewrite upd_same. Qed.

  Lemma P_const q : P (Const q).
  Proof. unfold P. simpl. rewrite Q2R_0'. apply is_derive_const_R. Qed.

  Lemma P_param p : P (Param p).
  Proof. unfold P. simpl. rewrite Q2R_0'. apply is_derive_const_R. Qed.

  Lemma ev_grad_var y : ev (g (Var y)) = ind v y.
  Proof.
    simpl. unfold ind. destruct (String.eqb y v); [apply Q2R_1'|apply Q2R_0'].
  Qed.

  Lemma upd_derive y : is_derive (fun t => upd rho v t y) x0 (ind v y).
  Proof.
    unfold upd, ind. destruct (String.eqb y v).
    - apply is_derive_id_R.
    - apply is_derive_const_R.
  Qed.

  Lemma P_var y : P (Var y).
  Proof. unfold P. rewrite ev_grad_var. apply upd_derive. Qed.

  (* --- unary --- *)
  Lemma unary_grad_ev o a da :
    uop_exact o = true ->
    ev (unary_grad ln2c ln10c o a da) = uop_d o (ev a) * ev da.
  Proof.
    intros Ho. destruct o; try discriminate; unfold unary_grad, uop_d;
      rewrite ?s_neg_ev, ?s_mul_ev, ?s_div_ev, ?s_neg_ev, ?s_div_ev, ?s_sub_ev, ?s_add_ev,
        ?s_mul_ev, ?ev_c1, ?ev_c2; simpl; rewrite ?s_sub_ev, ?s_add_ev, ?s_mul_ev, ?ev_c1;
      try ring.
  Qed.

  Lemma P_un o a :
    uop_exact o = true -> uop_reg o (ev a) -> P a -> P (Un o a).
  Proof.
    unfold P. intros Ho Hreg Ha.
    change (F (Un o a)) with (fun t => uopR o (F a t)).
    eapply is_derive_eq.
    - apply (is_derive_comp_R (uopR o) (F a)); [|exact Ha].
      apply uop_derive. rewrite F_x0. exact Hreg.
    - rewrite F_x0. simpl g. rewrite unary_grad_ev by exact Ho. ring.
  Qed.

  (* --- binary --- *)
  Lemma is_const_inv r : is_const r = true -> exists q, r = Const q.
  Proof. destruct r; try discriminate. intros _. eexists; reflexivity. Qed.

  Lemma binary_grad_pow_gen l r dl dr :
    is_const r = false ->
    binary_grad Pow l r dl dr =
    s_mul (Bin Pow l r) (s_add (s_mul dr (Un Log l)) (s_div (s_mul r dl) l)).
  Proof. destruct r; simpl; intros H; try discriminate; reflexivity. Qed.

  Lemma F_pow_gen l r t :
    is_const r = false -> F (Bin Pow l r) t = Rpower (F l t) (F r t).
  Proof. intros H. unfold F. now apply evalR_pow_gen. Qed.

  Lemma P_pow_const l n : powQ_reg (ev l) n -> P l -> P (Bin Pow l (Const n)).
  Proof.
    unfold P. intros Hreg Hl.
    change (F (Bin Pow l (Const n))) with (fun t => powQ (F l t) n).
    simpl g. unfold binary_grad.
    destruct (Qeq_bool n 0) eqn:E0; [|destruct (Qeq_bool n 1) eqn:E1].
    - rewrite ev_c0. apply is_derive_ext with (fun _ : R => 1).
      + intros t. symmetry. now apply powQ_exp0.
      + apply is_derive_const_R.
    - apply is_derive_ext with (F l); [|exact Hl].
      intros t. symmetry. now apply powQ_exp1.
    - eapply is_derive_eq.
      + apply (is_derive_comp_R (fun t => powQ t n) (F l)); [|exact Hl].
        apply powQ_derive. rewrite F_x0. exact Hreg.
      + rewrite F_x0, !s_mul_ev, s_pow_ev; [simpl; ring|].
        intros Hz _ _. rewrite (is_zero_ev _ _ _ Hz) in Hreg.
        unfold powQ_reg in Hreg. rewrite Qis_int_minus1, Qfloor_minus1.
        destruct (Qis_int n) eqn:Hi; [|lra]. split; [reflexivity|].
        destruct Hreg as [Hreg|Hreg]; [|lra].
        assert (H0 : Qfloor' n <> 0%Z).
        { intros H. pose proof (Qint_floor_eq n 0 Hi H) as Hq.
          change (Qeq_bool n 0 = true) in Hq. congruence. }
        assert (H1 : Qfloor' n <> 1%Z).
        { intros H. pose proof (Qint_floor_eq n 1 Hi H) as Hq.
          change (Qeq_bool n 1 = true) in Hq. congruence. }
        lia.
  Qed.

  Definition bin_reg (o : bop) (l r : expr) : Prop :=
    match o with
    | Div => ev r <> 0
    | Pow => match r with
             | Const q => powQ_reg (ev l) q
             | _ => 0 < ev l
             end
    | _ => True
    end.

  Lemma P_bin o l r : bin_reg o l r -> P l -> P r -> P (Bin o l r).
  Proof.
    intros Hreg Hl Hr. destruct o.
    - unfold P in *. change (F (Bin Add l r)) with (fun t => F l t + F r t).
      simpl g. unfold binary_grad. rewrite s_add_ev.
      apply is_derive_plus_R; assumption.
    - unfold P in *. change (F (Bin Sub l r)) with (fun t => F l t - F r t).
      simpl g. unfold binary_grad. rewrite s_sub_ev.
      apply is_derive_minus_R; assumption.
    - unfold P in *. change (F (Bin Mul l r)) with (fun t => F l t * F r t).
      simpl g. unfold binary_grad. rewrite s_add_ev, !s_mul_ev.
      eapply is_derive_eq; [apply is_derive_mult_R; eassumption|].
      rewrite !F_x0. ring.
    - unfold P in *. change (F (Bin Div l r)) with (fun t => F l t / F r t).
      simpl g. unfold binary_grad. rewrite s_div_ev, s_sub_ev, !s_mul_ev.
      simpl in Hreg.
      eapply is_derive_eq; [apply is_derive_div; try eassumption|].
      + rewrite F_x0. exact Hreg.
      + rewrite !F_x0. field. exact Hreg.
    - destruct (is_const r) eqn:Ec.
      + destruct (is_const_inv r Ec) as [n ->]. apply P_pow_const; assumption.
      + assert (Hpos : 0 < ev l) by (destruct r; try discriminate; exact Hreg).
        unfold P in *.
        change (g (Bin Pow l r)) with (binary_grad Pow l r (g l) (g r)).
        rewrite binary_grad_pow_gen by exact Ec.
        apply is_derive_ext with (fun t => Rpower (F l t) (F r t)).
        * intros t. symmetry. now apply F_pow_gen.
        * eapply is_derive_eq; [apply Rpower_derive; try eassumption|].
          -- rewrite F_x0. exact Hpos.
          -- rewrite !F_x0, s_mul_ev, s_add_ev, s_div_ev, !s_mul_ev.
             rewrite evalR_pow_gen by exact Ec. simpl. ring.
  Qed.

  Lemma regular_bin o l r :
    regular rho penv (Bin o l r) ->
    regular rho penv l /\ regular rho penv r /\ bin_reg o l r.
  Proof. simpl. unfold bin_reg. tauto. Qed.

  (** ** Scalar core *)
  Theorem grad_correct_scalar_aux e :
    scalar_only e = true -> exact_ops e = true -> regular rho penv e -> P e.
  Proof.
    induction e as [q|y|p|o l IHl r IHr|o a IHa| | | | | | | | | | | ];
      try discriminate; intros Hs Hx Hr.
    - apply P_const.
    - apply P_var.
    - apply P_param.
    - simpl in Hs, Hx. apply andb_true_iff in Hs. apply andb_true_iff in Hx.
      destruct Hs as [Hs1 Hs2]. destruct Hx as [Hx1 Hx2].
      apply regular_bin in Hr. destruct Hr as [Hr1 [Hr2 Hr3]].
      apply P_bin; auto.
    - simpl in Hs, Hx. apply andb_true_iff in Hx. destruct Hx as [Hx1 Hx2].
      destruct Hr as [Hr1 Hr2]. apply P_un; auto.
  Qed.

  (* ---------------------------------------------------------------- *)
  (** ** Vector and matrix rules *)

  Notation dv := (fun e : expr => ev (g e)).

  (* --- evaluation of the accumulating folds --- *)
  Lemma sum_grad_ev des acc : ev (sum_grad des acc) = ev acc + sumR (map ev des).
  Proof.
    revert acc. induction des as [|d des IH]; intros acc; simpl; [ring|].
    rewrite IH, s_add_ev. ring.
  Qed.

  Lemma lincomb_grad_ev cs des acc :
    ev (lincomb_grad cs des acc) = ev acc + dotR (map Q2R cs) (map ev des).
  Proof.
    revert des acc. induction cs as [|c cs IH]; intros [|d des] acc; simpl; try ring.
    rewrite IH, s_add_ev, s_mul_ev. simpl. ring.
  Qed.

  Lemma norm2_grad_ev node es des acc :
    ev (norm2_grad node es des acc) =
    ev acc + dotR (map (fun a => ev a / ev node) es) (map ev des).
  Proof.
    revert des acc. induction es as [|a es IH]; intros [|d des] acc; simpl; try ring.
    rewrite IH, s_add_ev, s_mul_ev, s_div_ev. ring.
  Qed.

  Lemma norm1_grad_ev es des acc :
    ev (norm1_grad es des acc) =
    ev acc + dotR (map (fun a => ev a / Rabs (ev a)) es) (map ev des).
  Proof.
    revert des acc. induction es as [|a es IH]; intros [|d des] acc; simpl; try ring.
    rewrite IH, s_add_ev, s_mul_ev, s_div_ev. simpl. ring.
  Qed.

  Lemma dv_map_Var xs : map dv (map Var xs) = map (ind v) xs.
  Proof. rewrite map_map. apply map_ext. intros y. apply ev_grad_var. Qed.

  (* --- sums: VectorSum, VectorExpressionSum, MatrixSum --- *)
  Lemma P_vsum i xs : NoDup xs -> P (VSum i xs).
  Proof.
    intros Hnd. unfold P.
    eapply is_derive_eq.
    - apply (sumR_derive xs (fun y t => upd rho v t y) (fun y => 1 * ind v y)).
      apply Forall_forall. intros y _. rewrite Rmult_1_l. apply upd_derive.
    - rewrite (sum_indicator (fun _ => 1) v xs Hnd). simpl.
      destruct (mem_name v xs); [apply eq_sym, Q2R_1'|apply eq_sym, Q2R_0'].
  Qed.

  Lemma P_sum_list es : Forall P es ->
    is_derive (fun t => sumR (map (fun e => F e t) es)) x0 (ev (sum_grad (map g es) c0)).
  Proof.
    intros H. eapply is_derive_eq.
    - exact (sumR_derive es F dv x0 H).
    - rewrite sum_grad_ev, ev_c0, map_map. ring.
  Qed.

  Lemma P_vexprsum es : Forall P es -> P (VExprSum es).
  Proof. intros H. exact (P_sum_list es H). Qed.

  Lemma P_msum b es : Forall P es -> P (MSum b es).
  Proof. intros H. exact (P_sum_list es H). Qed.

  (* --- LinearCombination --- *)
  Lemma lincomb_derive cs es : Forall P es ->
    is_derive (F (LinComb cs KExpr es)) x0 (dotR (map Q2R cs) (map dv es)).
  Proof. intros H. exact (dotR_const_derive (map Q2R cs) es F dv x0 H). Qed.

  Lemma dotR_ind_zero cs xs : ~ In v xs -> dotR cs (map (ind v) xs) = 0.
  Proof.
    revert cs. induction xs as [|y xs IH]; intros [|c cs] Hn; simpl; try reflexivity.
    rewrite IH by (intros H; apply Hn; now right).
    unfold ind. destruct (String.eqb y v) eqn:E; [|ring].
    apply String.eqb_eq in E. exfalso. apply Hn. left. exact E.
  Qed.

  Lemma first_coeff_ev cs xs :
    NoDup xs -> ev (first_coeff v cs (map Var xs)) = dotR (map Q2R cs) (map (ind v) xs).
  Proof.
    intros Hnd. revert cs. induction Hnd as [|y xs Hy Hxs IH]; intros [|c cs]; simpl;
      try apply Q2R_0'.
    unfold ind at 1. destruct (String.eqb y v) eqn:E.
    - apply String.eqb_eq in E. subst y. rewrite dotR_ind_zero by exact Hy. simpl. ring.
    - rewrite IH. ring.
  Qed.

  Lemma kind_wf_KVar i es :
    kind_wf (KVar i) es = true -> exists xs, es = map Var xs /\ NoDup xs.
  Proof.
    unfold kind_wf. intros H. apply andb_true_iff in H. destruct H as [H1 H2].
    exists (vec_names es). split; [apply is_var_names, H1|apply NoDupb_NoDup, H2].
  Qed.

  Lemma P_lincomb cs k es : kind_wf k es = true -> Forall P es -> P (LinComb cs k es).
  Proof.
    intros Hk H. unfold P. eapply is_derive_eq; [exact (lincomb_derive cs es H)|].
    destruct k as [i|]; simpl g.
    - destruct (kind_wf_KVar i es Hk) as [xs [-> Hnd]].
      rewrite first_coeff_ev by exact Hnd. now rewrite dv_map_Var.
    - rewrite lincomb_grad_ev, ev_c0, map_map. ring.
  Qed.

  (* --- L2Norm / FrobeniusNorm --- *)
  Notation sumsq es := (sumR (map (fun e => Rsqr (ev e)) es)).

  Lemma sumR_scal_ext {A} (k : R) (h h' : A -> R) (l : list A) :
    (forall a, h' a = k * h a) -> sumR (map h' l) = k * sumR (map h l).
  Proof. intros H. rewrite <- sumR_scal. f_equal. apply map_ext, H. Qed.

  Lemma sumsq_derive es : Forall P es ->
    is_derive (fun t => sumR (map (fun e => Rsqr (F e t)) es)) x0
              (sumR (map (fun e => 2 * ev e * dv e) es)).
  Proof.
    intros H. apply (sumR_derive es (fun e t => Rsqr (F e t))).
    eapply Forall_impl; [|exact H]. intros e He. unfold Rsqr.
    eapply is_derive_eq; [apply is_derive_mult_R; exact He|]. rewrite F_x0. ring.
  Qed.

  Lemma norm2_derive es : Forall P es -> 0 < sumsq es ->
    is_derive (fun t => sqrt (sumR (map (fun e => Rsqr (F e t)) es))) x0
              (sumR (map (fun e => ev e / sqrt (sumsq es) * dv e) es)).
  Proof.
    intros H Hpos.
    assert (Hx : sumR (map (fun e => Rsqr (F e x0)) es) = sumsq es).
    { unfold F. now rewrite upd_same. }
    eapply is_derive_eq.
    - apply (is_derive_sqrt (fun t => sumR (map (fun e => Rsqr (F e t)) es)));
        [apply sumsq_derive, H|]. rewrite Hx. exact Hpos.
    - cbv beta. rewrite Hx.
      assert (Hs := sqrt_lt_R0 _ Hpos). set (s := sqrt (sumsq es)) in *.
      rewrite (sumR_scal_ext 2 (fun e => ev e * dv e) (fun e => 2 * ev e * dv e))
        by (intros; ring).
      rewrite (sumR_scal_ext (/ s) (fun e => ev e * dv e) (fun e => ev e / s * dv e))
        by (intros; unfold Rdiv; ring).
      field. lra.
  Qed.

  Lemma norm2_grad_sum node es :
    ev (norm2_grad node es (map g es) c0) = sumR (map (fun e => ev e / ev node * dv e) es).
  Proof. rewrite norm2_grad_ev, ev_c0, map_map, dotR_map_same. ring. Qed.

  Lemma P_frob es : Forall P es -> 0 < sumsq es -> P (Frob es).
  Proof.
    intros H Hpos. unfold P. eapply is_derive_eq; [exact (norm2_derive es H Hpos)|].
    simpl g. rewrite norm2_grad_sum. reflexivity.
  Qed.

  Lemma P_l2n k es : kind_wf k es = true -> Forall P es -> 0 < sumsq es -> P (L2n k es).
  Proof.
    intros Hk H Hpos. unfold P. eapply is_derive_eq; [exact (norm2_derive es H Hpos)|].
    destruct k as [i|]; simpl g.
    - destruct (kind_wf_KVar i es Hk) as [xs [Hes Hnd]].
      assert (Hn : ev (L2n (KVar i) es) = sqrt (sumsq es)) by reflexivity.
      set (s := sqrt (sumsq es)) in *. clearbody s. subst es.
      rewrite vec_names_map_Var, map_map.
      rewrite (sumR_ext_in _ (fun y => rho y / s * ind v y)).
      + rewrite (sum_indicator (fun y => rho y / s) v xs Hnd).
        destruct (mem_name v xs); [|apply eq_sym, ev_c0].
        rewrite s_div_ev, Hn. reflexivity.
      + intros y _. rewrite ev_grad_var. reflexivity.
    - rewrite norm2_grad_sum. reflexivity.
  Qed.

  (* --- L1Norm --- *)
  Lemma norm1_derive es : Forall P es -> Forall (fun e => ev e <> 0) es ->
    is_derive (fun t => sumR (map (fun e => Rabs (F e t)) es)) x0
              (sumR (map (fun e => ev e / Rabs (ev e) * dv e) es)).
  Proof.
    intros H Hne. apply (sumR_derive es (fun e t => Rabs (F e t))).
    eapply Forall_impl; [|exact (Forall_and _ _ _ H Hne)]. intros e [He Hn].
    eapply is_derive_eq.
    - apply (is_derive_Rabs (F e)); [exact He|]. rewrite F_x0. exact Hn.
    - rewrite F_x0, (sign_div_abs _ Hn). reflexivity.
  Qed.

  Lemma P_l1n k es : kind_wf k es = true -> Forall P es ->
    Forall (fun e => ev e <> 0) es -> P (L1n k es).
  Proof.
    intros Hk H Hne. unfold P. eapply is_derive_eq; [exact (norm1_derive es H Hne)|].
    destruct k as [i|]; simpl g.
    - destruct (kind_wf_KVar i es Hk) as [xs [Hes Hnd]]. subst es.
      rewrite vec_names_map_Var, map_map.
      rewrite (sumR_ext_in _ (fun y => rho y / Rabs (rho y) * ind v y)).
      + rewrite (sum_indicator (fun y => rho y / Rabs (rho y)) v xs Hnd).
        destruct (mem_name v xs); [|apply eq_sym, ev_c0].
        rewrite s_div_ev. reflexivity.
      + intros y _. rewrite ev_grad_var. reflexivity.
    - rewrite norm1_grad_ev, ev_c0, map_map, dotR_map_same. ring.
  Qed.

  (* --- DotProduct --- *)
  Fixpoint dot2R (ls rs : list expr) : R :=
    match ls, rs with
    | l :: ls', r :: rs' => (ev l * dv r + ev r * dv l) + dot2R ls' rs'
    | _, _ => 0
    end.

  Lemma dot_derive ls rs : Forall P ls -> Forall P rs ->
    is_derive (F (Dot KExpr ls KExpr rs)) x0 (dot2R ls rs).
  Proof.
    intros Hl. revert rs. induction Hl as [|l ls Hl Hls IH]; intros rs Hr.
    - apply is_derive_const_R.
    - destruct Hr as [|r rs Hr Hrs]; [apply is_derive_const_R|].
      change (F (Dot KExpr (l :: ls) KExpr (r :: rs)))
        with (fun t => F l t * F r t + F (Dot KExpr ls KExpr rs) t).
      simpl dot2R. apply is_derive_plus_R; [|apply IH, Hrs].
      eapply is_derive_eq; [apply is_derive_mult_R; [exact Hl|exact Hr]|].
      rewrite !F_x0. ring.
  Qed.

  Lemma dot_gen_grad_ev ls rs acc :
    ev (dot_gen_grad ls rs (map g ls) (map g rs) acc) = ev acc + dot2R ls rs.
  Proof.
    revert rs acc. induction ls as [|l ls IH]; intros [|r rs] acc; simpl; try ring.
    rewrite IH, !s_add_ev, !s_mul_ev. ring.
  Qed.

  Lemma dot_vv_grad_ev xs ys acc :
    ev (dot_vv_grad v (map Var xs) (map Var ys) acc) =
    ev acc + dot2R (map Var xs) (map Var ys).
  Proof.
    revert ys acc. induction xs as [|x xs IH]; intros [|y ys] acc; simpl map;
      try (simpl; ring).
    simpl dot_vv_grad. rewrite IH. simpl dot2R. rewrite !ev_grad_var. unfold ind.
    destruct (String.eqb x v), (String.eqb y v); rewrite ?s_add_ev; simpl; ring.
  Qed.

  Lemma dot2R_same xs :
    dot2R (map Var xs) (map Var xs) = sumR (map (fun y => 2 * rho y * ind v y) xs).
  Proof.
    induction xs as [|x xs IH]; simpl map; [reflexivity|].
    simpl dot2R. rewrite IH, ev_grad_var. simpl. ring.
  Qed.

  Lemma P_dot kl ls kr rs :
    kind_wf kl ls = true -> kind_wf kr rs = true -> same_vec kl ls kr rs = true ->
    Forall P ls -> Forall P rs -> P (Dot kl ls kr rs).
  Proof.
    intros Hkl Hkr Hsame Hl Hr. unfold P.
    eapply is_derive_eq; [exact (dot_derive ls rs Hl Hr)|].
    assert (Hgen : dot2R ls rs = ev (dot_gen_grad ls rs (map g ls) (map g rs) c0))
      by (rewrite dot_gen_grad_ev, ev_c0; ring).
    destruct kl as [i|]; [|exact Hgen]. destruct kr as [j|]; [|exact Hgen].
    destruct (kind_wf_KVar i ls Hkl) as [xs [Hls Hxs]].
    destruct (kind_wf_KVar j rs Hkr) as [ys [Hrs Hys]]. subst ls rs.
    simpl g. simpl in Hsame. destruct (N.eqb i j).
    - rewrite !vec_names_map_Var in Hsame. apply list_eqb_string_eq in Hsame. subst ys.
      rewrite vec_names_map_Var, dot2R_same.
      rewrite (sumR_ext_in _ (fun y => 2 * rho y * ind v y)) by reflexivity.
      rewrite (sum_indicator (fun y => 2 * rho y) v xs Hxs).
      destruct (mem_name v xs); [|apply eq_sym, ev_c0].
      rewrite s_mul_ev, ev_c2. reflexivity.
    - rewrite dot_vv_grad_ev, ev_c0. ring.
  Qed.

  (* --- VectorPowerSum --- *)
  Lemma Qeq_bool_minus1 p z :
    Qeq_bool p (inject_Z (z + 1)) = true -> Qeq_bool (p - 1) (inject_Z z) = true.
  Proof.
    intros H. apply Qeq_bool_iff in H. apply Qeq_bool_iff. rewrite H.
    rewrite inject_Z_plus. ring.
  Qed.

  Lemma vpow_deriv_ev p : ev (vpow_deriv p v) = Q2R p * powQ x0 (p - 1).
  Proof.
    unfold vpow_deriv. destruct (Qeq_bool p 1) eqn:E1; [|destruct (Qeq_bool p 2) eqn:E2].
    - rewrite ev_c1, (Qeq_bool_Q2R _ _ E1), Q2R_1'.
      rewrite powQ_exp0; [ring|]. apply (Qeq_bool_minus1 p 0), E1.
    - change (ev (Bin Mul c2 (Var v))) with (ev c2 * x0).
      rewrite ev_c2, (Qeq_bool_Q2R _ _ E2), Q2R_2'.
      rewrite powQ_exp1; [ring|]. apply (Qeq_bool_minus1 p 1), E2.
    - reflexivity.
  Qed.

  Lemma P_vpowsum i xs p :
    NoDup xs -> Forall (fun y => powQ_reg (rho y) p) xs -> P (VPowSum i xs p).
  Proof.
    intros Hnd Hreg. unfold P.
    eapply is_derive_eq.
    - apply (sumR_derive xs (fun y t => powQ (upd rho v t y) p)
                         (fun y => Q2R p * powQ (rho y) (p - 1) * ind v y)).
      eapply Forall_impl; [|exact Hreg]. intros y Hy.
      eapply is_derive_eq.
      + apply (is_derive_comp_R (fun t => powQ t p) (fun t => upd rho v t y));
          [|apply upd_derive].
        apply powQ_derive. rewrite upd_same_pt. exact Hy.
      + rewrite upd_same_pt. ring.
    - rewrite (sum_indicator (fun y => Q2R p * powQ (rho y) (p - 1)) v xs Hnd).
      simpl g. destruct (mem_name v xs); [|apply eq_sym, ev_c0].
      symmetry. apply vpow_deriv_ev.
  Qed.

  (* --- VectorUnarySum --- *)
  Lemma vunary_deriv_ev o :
    vun_ok o = true ->
    ev (match vunary_deriv o v with Some d => d | None => c0 end) = uop_d o x0.
  Proof.
    destruct o; try discriminate; intros _; simpl;
      rewrite ?Q2R_1', ?Q2R_2', ?Q2R_m1'; try reflexivity; try ring.
    - rewrite (powQ_exp2 (cos x0) 2) by reflexivity. reflexivity.
    - rewrite (powQ_exp2 (tanh x0) 2) by reflexivity. reflexivity.
  Qed.

  Lemma P_vunsum i xs o :
    vun_ok o = true -> NoDup xs -> Forall (fun y => uop_reg o (rho y)) xs ->
    P (VUnSum i xs o).
  Proof.
    intros Ho Hnd Hreg. unfold P.
    eapply is_derive_eq.
    - apply (sumR_derive xs (fun y t => uopR o (upd rho v t y))
                         (fun y => uop_d o (rho y) * ind v y)).
      eapply Forall_impl; [|exact Hreg]. intros y Hy.
      eapply is_derive_eq.
      + apply (is_derive_comp_R (uopR o) (fun t => upd rho v t y)); [|apply upd_derive].
        apply uop_derive. rewrite upd_same_pt. exact Hy.
      + rewrite upd_same_pt. ring.
    - rewrite (sum_indicator (fun y => uop_d o (rho y)) v xs Hnd).
      simpl g. destruct (mem_name v xs); [|apply eq_sym, ev_c0].
      symmetry. apply vunary_deriv_ev, Ho.
  Qed.
(*VEC*)
End Correct.

Theorem grad_correct_scalar : forall ln2c ln10c e v rho penv,
  scalar_only e = true -> exact_ops e = true -> regular rho penv e ->
  is_derive (fun t : R => evalR (upd rho v t) penv e) (rho v)
            (evalR rho penv (grad ln2c ln10c v e)).
Proof.
  intros ln2c ln10c e v rho penv Hs Hx Hr.
  exact (grad_correct_scalar_aux ln2c ln10c v rho penv e Hs Hx Hr).
Qed.
